#!/usr/bin/env python3
"""Handling of independently written seeded changes (see DESIGN.md §13).

  tools_seeded.py import <worktree> <id> <property>   copy patch.diff / demo / NOTES.md into seeded/<id>/
  tools_seeded.py verify <id>       scratch worktree of /repo: pinned tests still pass with the patch,
                                    demo fails with it and passes without it
  tools_seeded.py detect <id> [PROP...] [--tier quick] [--runs N]
                                    scratch copy of /repo/stix2 + patch, run the checks with VERIF_REPO
  tools_seeded.py detect-all

Nothing here ever edits /repo; scratch copies live under /dev/shm and are removed.
"""
import glob
import json
import os
import re
import shutil
import subprocess
import sys
import tempfile
import time

HERE = os.path.dirname(os.path.abspath(__file__))
SEEDED = os.path.join(HERE, 'seeded')
PY = '/venv/bin/python'
BASE_PASS, BASE_FAIL = 2433, 45


def sh(cmd, **kw):
    return subprocess.run(cmd, shell=isinstance(cmd, str), capture_output=True, text=True, **kw)


def meta_path(i):
    return os.path.join(SEEDED, i, 'meta.json')


def load_meta(i):
    return json.load(open(meta_path(i)))


def save_meta(i, m):
    with open(meta_path(i), 'w') as f:
        json.dump(m, f, indent=1, sort_keys=True)
        f.write('\n')


def cmd_import(wt, i, prop):
    d = os.path.join(SEEDED, i)
    os.makedirs(d, exist_ok=True)
    # prefer the patch the agent recorded itself (agents share one git stash stack, so the worktree state is not trusted)
    if os.path.exists(os.path.join(wt, 'patch.diff')):
        diff = open(os.path.join(wt, 'patch.diff')).read()
    else:
        diff = sh('git -C %s diff -- stix2' % wt).stdout
    open(os.path.join(d, 'patch.diff'), 'w').write(diff)
    for f in glob.glob(os.path.join(wt, 'demo_*.py')):
        shutil.copy(f, d)
    if os.path.exists(os.path.join(wt, 'NOTES.md')):
        shutil.copy(os.path.join(wt, 'NOTES.md'), d)
    m = dict(id=i, property=prop, source='independent sub-agent given only the property text and its own worktree',
             files_changed=sorted(set(re.findall(r'^\+\+\+ b/(\S+)', diff, re.M))))
    if os.path.exists(os.path.join(d, 'NOTES.md')):
        m['needs_to_manifest'] = open(os.path.join(d, 'NOTES.md')).read().strip()
    save_meta(i, m)
    print('imported', i, m['files_changed'])


def cmd_verify(i, at='HEAD'):
    d = os.path.join(SEEDED, i)
    m = load_meta(i)
    wt = tempfile.mkdtemp(prefix='seedwt-', dir='/dev/shm')
    os.rmdir(wt)
    try:
        r = sh('git -C /repo worktree add -q --detach %s %s' % (wt, at))
        if r.returncode:
            print(r.stderr)
            return 2
        demo = sorted(glob.glob(os.path.join(d, 'demo_*.py')))[0]
        env = dict(os.environ, PYTHONPATH=wt, PYTHONDONTWRITEBYTECODE='1')
        without = sh([PY, demo], cwd=wt, env=env)
        ap = sh('git -C %s apply %s' % (wt, os.path.join(d, 'patch.diff')))
        if ap.returncode:
            print('patch does not apply:', ap.stderr)
            m['verified'] = dict(applies=False)
            save_meta(i, m)
            return 1
        withp = sh([PY, demo], cwd=wt, env=env)
        t = sh('%s -m pytest -q -p no:cacheprovider --timeout=900 --continue-on-collection-errors 2>&1 | tail -1' % PY, cwd=wt,
               env=dict(os.environ, PYTHONDONTWRITEBYTECODE='1'))
        line = t.stdout.strip()
        mp = re.search(r'(\d+) passed', line)
        mf = re.search(r'(\d+) failed', line)
        tests_ok = bool(mp and mf and int(mp.group(1)) == BASE_PASS and int(mf.group(1)) == BASE_FAIL)
        m['verified'] = dict(applies=True, demo_without_patch_rc=without.returncode, demo_with_patch_rc=withp.returncode,
                             demo_with_patch_out=withp.stdout.strip()[-300:], pinned_tests=line, pinned_tests_unchanged=tests_ok,
                             ok=(without.returncode == 0 and withp.returncode == 1 and tests_ok),
                             what_i_ran='git worktree of /repo %s under /dev/shm; demo before/after `git apply patch.diff`; pinned pytest command' % at)
        save_meta(i, m)
        print(i, json.dumps(m['verified'])[:600])
        return 0 if m['verified']['ok'] else 1
    finally:
        sh('git -C /repo worktree remove --force %s' % wt)
        shutil.rmtree(wt, ignore_errors=True)


def cmd_detect(i, props, tier='quick', runs=None, at=None):
    d = os.path.join(SEEDED, i)
    m = load_meta(i)
    props = props or [m['property']]
    at = at or m.get('detect_at')        # a change written for an earlier /repo commit (a later fix: commit touched the same lines)
    scratch = tempfile.mkdtemp(prefix='seedrepo-', dir='/dev/shm')
    try:
        if at:
            r = subprocess.run('git -C /repo archive %s stix2 | tar -x -C %s' % (at, scratch), shell=True, capture_output=True, text=True)
            if r.returncode:
                print('cannot extract', at, r.stderr)
                return 2
            shutil.rmtree(os.path.join(scratch, 'stix2', 'test'), ignore_errors=True)
        else:
            shutil.copytree('/repo/stix2', os.path.join(scratch, 'stix2'), ignore=shutil.ignore_patterns('__pycache__', 'test'))
        diff = open(os.path.join(d, 'patch.diff')).read()
        # the scratch copy has no tests: drop hunks for files that are not there
        ap = subprocess.run(['patch', '-p1', '-s', '-f', '-d', scratch], input=diff, text=True, capture_output=True)
        if ap.returncode:
            print('patch failed:', ap.stdout, ap.stderr)
            return 2
        env = dict(os.environ, VERIF_REPO=scratch, VERIF_REPLAY_DIR=os.path.join(scratch, 'replays'),
                   VERIF_EVIDENCE_DIR=os.path.join(scratch, 'evidence'), PYTHONDONTWRITEBYTECODE='1')
        if runs:
            env['VERIF_RUNS'] = str(runs)
        res = m.setdefault('detection', {})
        for prop in props:
            t0 = time.time()
            p = subprocess.run([os.path.join(HERE, 'check'), prop, tier], env=env, capture_output=True, text=True, cwd=HERE)
            sigs = sorted(set(re.findall(r'signature=(\S+)', p.stdout)))
            reps = re.findall(r'VIOLATION property=\S+ replay=(\S+)', p.stdout)
            rep_ok = None
            minimal_ops = None
            if reps:
                rp = subprocess.run([os.path.join(HERE, 'check'), 'replay', reps[0]], env=env, capture_output=True, text=True, cwd=HERE)
                rep_ok = rp.returncode == 1 and 'reproduced' in rp.stdout
                mo = re.search(r'ops=(\d+)', p.stdout)
                minimal_ops = int(mo.group(1)) if mo else None
            res['%s/%s%s' % (prop, tier, '/runs=%s' % runs if runs else '')] = dict(
                rc=p.returncode, signatures=sigs[:8], replay_reproduced=rep_ok, minimised_ops=minimal_ops, wall_s=round(time.time() - t0, 1))
            print(i, prop, tier, 'rc=%d' % p.returncode, sigs[:4], 'replay_ok=%s' % rep_ok)
            if p.returncode == 2:
                print(p.stdout[-1500:], p.stderr[-1500:])
        m['caught_by'] = sorted({k.split('/')[0] for k, v in res.items() if v['rc'] == 1 and v['replay_reproduced']})
        save_meta(i, m)
    finally:
        shutil.rmtree(scratch, ignore_errors=True)
    return 0


def main(argv):
    if len(argv) < 2:
        print(__doc__)
        return 2
    c = argv[1]
    if c == 'import':
        return cmd_import(argv[2], argv[3], argv[4])
    if c == 'verify':
        return cmd_verify(argv[2], argv[3] if len(argv) > 3 else 'HEAD')
    if c == 'detect':
        args = [a for a in argv[3:] if not a.startswith('--')]
        tier = 'quick'
        runs = None
        rest = argv[3:]
        if '--tier' in rest:
            tier = rest[rest.index('--tier') + 1]
            args.remove(tier)
        if '--runs' in rest:
            runs = int(rest[rest.index('--runs') + 1])
            args.remove(str(runs))
        return cmd_detect(argv[2], args, tier, runs)
    if c == 'detect-all':
        for d in sorted(os.listdir(SEEDED)):
            if os.path.exists(meta_path(d)):
                cmd_detect(d, [])
        return 0
    if c == 'table':
        for d in sorted(os.listdir(SEEDED)):
            if os.path.exists(meta_path(d)):
                m = load_meta(d)
                print('| %s | %s | %s | %s | %s |' % (d, m['property'], ', '.join(m.get('files_changed', [])),
                                                   'yes' if m.get('verified', {}).get('ok') else 'NO',
                                                   ', '.join(m.get('caught_by', [])) or 'MISSED'))
        return 0
    if c == 'design-table':
        rows = ['| id | property | file changed | verified | caught by | first detection |', '|----|----------|--------------|----------|-----------|-----------------|']
        n = caught = aswas = 0
        for d in sorted(os.listdir(SEEDED)):
            if os.path.exists(meta_path(d)):
                m = load_meta(d)
                n += 1
                caught += bool(m.get('caught_by'))
                aswas += m.get('first_detection', '').startswith('as-was')
                rows.append('| %s | %s | %s | %s | %s | %s |' % (
                    d, m['property'], ', '.join(x.replace('stix2/', '') for x in m.get('files_changed', [])),
                    'yes' if m.get('verified', {}).get('ok') else 'NO', ', '.join(m.get('caught_by', [])) or '**missed**',
                    m.get('first_detection', '')))
        rows.append('')
        rows.append('Totals: %d seeded changes kept, %d caught by the checks as they stand now, %d of them by the check exactly as it stood '
                    'when the change arrived.' % (n, caught, aswas))
        path = os.path.join(HERE, 'DESIGN.md')
        txt = open(path).read()
        a, b = '<!-- SEEDED-TABLE-BEGIN -->', '<!-- SEEDED-TABLE-END -->'
        if a in txt:
            txt = txt[:txt.index(a) + len(a)] + '\n' + '\n'.join(rows) + '\n' + txt[txt.index(b):]
            open(path, 'w').write(txt)
            print('table updated: %d rows' % n)
        return 0
    print(__doc__)
    return 2


if __name__ == '__main__':
    sys.exit(main(sys.argv))
