#!/usr/bin/env python3
"""Regenerates MANIFEST.json from the table below (keeps it valid and consistent)."""
import json

CLAIMED = {
    'C05': dict(design='DESIGN.md §3 C05', technique='deterministic simulation: seeded operation histories on version chains (built-in, dict-kept, observable and run-registered custom types) with a steered simulated wall clock and background activity of the process (incl. refused registrations), reference-model oracle, ddmin-minimised replay',
                text='Seeded search over histories of new_version/revoke/marking ops on objects and dicts of every versionable type of both spec versions, with the wall clock steered relative to the previous modified time (earlier, equal, sub-precision later, later; stalled, backward-jumping, coarse clocks). A clean batch is evidence, not proof.',
                note='Trusts: own integer timestamp parser, hand-written catalog of valid objects, the library serializer as observation channel. Clock seam = STIXdatetime.now; ops that bypass it are counted and stay soundly judged.'),
    'C11': dict(design='DESIGN.md §3 C11', technique='deterministic simulation with fault injection: seeded add/read histories against MemoryStore and FileSystemStore on a simulated disk (readdir order, disk-owned file time stamps of plan-chosen granularity, EIO/ENOSPC/EACCES on open/write/read/listdir/stat/mkdir, short/torn writes, files vanishing under the reader, stray entries and pre-created skeleton directories, a relative store path under a changing working directory, process crash + restart), plan-chosen background activity of the process between operations, list-model oracle, ddmin replay',
                text='Seeded search over add histories in every documented input form, reads after every add, save/load and restarts, compared op by op with a plain-list model; a separate faulting batch injects I/O errors, torn writes and crashes inside adds and reads and checks that acknowledged versions are never lost, altered or answered wrongly.',
                note='Trusts: tmpfs semantics, own timestamp parser and JSON normaliser; completed write()s survive a process crash (no power-loss model); acceptance policy of add() is not judged (a raising add is resolved by observation).'),
    'C12': dict(design='DESIGN.md §3 C12', technique='deterministic simulation: seeded populations on MemoryStore + FileSystemStore (simulated disk, readdir order) queried through three filter delivery paths, part of the population arriving between the queries, coarse/frozen file time stamps, stray directory entries, relative store path + chdir, background activity; independent filter evaluator + model-free conjunction/monotonicity laws; ddmin replay',
                text='Seeded search over populations and filter sets (all 8 operators, 20 property paths incl. dotted paths through lists of objects and through nested objects to list leaves, type/id optimiser mixes, hits and near misses), each delivered as query argument, attached to the source, or attached to a composite and passed down, compared with an independent evaluator over the list model; plus model-free laws.',
                note='Trusts: own filter evaluator for the documented semantics; filters are generated only inside the documented semantics (like-typed ordering, != on scalars only, contains/in where element-equality and substring coincide); dict-kept objects only meet canonically spelled ms timestamps.'),
    'C14': dict(design='DESIGN.md §3 C14', technique='deterministic simulation: seeded entry-point x version x allow_custom x input routing through real stores on a simulated disk, incl. stores that already hold the same (id, modified) from an earlier operation under another version; background activity incl. refused registrations; differential oracle against the direct parser + independent version-class, id-strictness and 2.0-UUIDv4 oracles; ddmin replay',
                text='Seeded search over every public entry point with a version parameter (parse_observable, memory store/source/sink construction, add, load_from_file, filesystem sink/store add, filesystem source/store get/all_versions/query, Environment.add) x {None,2.0,2.1} x allow_custom x inputs that separate the versions and the id strictness levels.',
                note='Trusts: stix2.parse called with keyword arguments as the reference for acceptance (the property defines strictness relative to a direct parse); version base classes identify the version; own JSON normaliser.'),
    'C18': dict(design='DESIGN.md §3 C18', technique='deterministic simulation: member sources as nodes, seeded partition of a population and attachment order/attach-detach schedule, navigation through every facade (incl. filters attached through Environment.add_filter and re-attached FilterSets), list-model (union scan) oracle; ddmin replay',
                text='Seeded search over partitions of a population (overlapping copies, different versions of one id on different members) over 2-4 member sources (MemoryStore, FileSystemStore on the simulated disk, static MemorySource), attachment orders, attach/detach histories and all navigation options, through composite, nested composite, Environment and plain-store facades, compared with a scan of the union.',
                note='Trusts: own list model and filter evaluator; navigation answers are compared as sets of (id, version); composite filters only on version-constant properties and only for get/all_versions/query (the property does not say whether attached filters apply to navigation).'),
    'C07': dict(design='DESIGN.md §3 C07', technique='deterministic simulation: seeded marking-operation histories on evolving subjects under a steered simulated clock, marking ids legal in 2.1 only shared with 2.0 subjects; set-of-pairs reference model with path-tree ancestry, query-agreement and metamorphic oracles; ddmin replay',
                text='Seeded search over histories of add/remove/set/clear (object-level and granular) and get_markings/is_marked (all inherited x descendants x kind-switch combinations) on SDO/SRO objects, plain dicts and marking definitions of both spec versions, with selectors from an own path enumerator (prefix siblings, list indices, nested paths) and marking-ref and language markings.',
                note='Trusts: the set model is what the property states; selectors that descend into embedded library objects may be refused for object subjects (C08 matter); is_marked is checked for a single marking or None.'),
    'C13': dict(design='DESIGN.md §3 C13', technique='deterministic simulation: invariant monitor (deep fingerprints of every argument and pooled value before/after) around a seeded mix of 23 kinds of public calls incl. failing calls, multi-step navigation with caller-held filter lists, and calls interrupted by injected I/O faults/crashes; ddmin replay',
                text='Seeded search over sequences of public operations (constructors with nested arguments, parse, deepcopy, versioning, markings, bundles, factory defaults, store add/read/save/load on the simulated disk, registration, attribute assignment) on a shared pool of caller-owned containers and library objects; after every call - successful, failing or fault-interrupted - every argument and every pooled value must be value-identical, and deep copies must be equal and disjoint.',
                note='Trusts: own recursive fingerprint walker (types, key order, values, datetime precision metadata) and serialize() text as the observation of "value-identical".'),
    'C17': dict(design='DESIGN.md §3 C17', technique='deterministic simulation with fault injection: seeded wrong-kind corruption of valid objects at the data seams (in flight, text/stream, stored files, saved bundles) through 16 entry points, incl. nesting of up to 1400 levels (the limit of what json.loads decodes here), whole stored files replaced by non-object JSON, and types registered after an earlier parse; error-family oracle with watchdog, registry/store failure-atomicity oracle, member-order metamorphic oracle; ddmin replay',
                text='Stated scope: corruption as a fault (1-3 wrong-kind or degenerate-empty replacements, key injections or key removals at any depth of a valid object, always JSON-decodable) delivered to parse / constructors / new_version / Bundle / parse_observable and through store add, stored-file read-back and saved-bundle load; the call must terminate and return or raise STIXError/ValueError/TypeError, and after a failing call registries (maps and class-level state of every registered class) equal their snapshot and stores hold nothing from the failed element. Not claimed: "all JSON values", or that returned objects are fully validated (C02).',
                note='Trusts: the judged scope rule (store ADD / load entry points are judged for the error family only when the exception comes out of the parse/construct step; reading a stored file back is always judged); junk ids are ignored by the store atomicity comparison.'),
    'C19': dict(design='DESIGN.md §3 C19', technique='deterministic simulation: process-wide registries as shared state, seeded registration/parse/lookup/use histories, plain-dict reference model compared in full after every op; ddmin replay',
                text='Seeded search over histories of registrations through the four decorators of both spec versions (fresh, taken, cross-category and rule-breaking names; legal and rule-breaking property lists; the extension_name form) interleaved with parse in strict/custom mode with and without a named version, class_for_type, and construction / round trip / new_version / store traffic of custom instances.',
                note='Trusts: the naming rules asserted are those in the specification text (type names a-z0-9-, 3-250; 2.1 property names a-z0-9_, 3-250, leading letter; *_ref(s) only on reference properties); unconfirmed rules accept either outcome; objects and observables share one name space.'),
    'C06': dict(design='DESIGN.md §3 C06', technique='deterministic simulation: environment matrix (interpreter process x PYTHONHASHSEED, uuid4 stream, clock, argument/dictionary order, construction route, other library calls on the same types between constructions, caller spellings of non-vocabulary hash algorithms) with cross-process id-table comparison; independent RFC 8785 + SHA-1 UUIDv5 exactness oracle; ddmin replay',
                text='Seeded search over observables of every 2.1 SCO type and five registered custom observables, minted through ten routes (kwargs in three orders, parse of shuffled dict / text, re-serialise without id, deepcopy, bundle member, parse_observable, memory store) under two uuid4 streams and three clocks; runs 4k..4k+3 hold the same items and execute in four interpreters with different PYTHONHASHSEED whose id tables the driver compares.',
                note='Trusts: own RFC 8785 writer (checked against the RFC number vectors) and hashlib.sha1; frozen per-type contributing-property lists; "else first" only exercised with a single non-preferred hash; software.languages never generated.'),
}

NA = {
    'C01': 'pure function of (object, serialization options): no clock, I/O, fault or history enters; deciding it is input generation, not simulation',
    'C02': 'pure function of the input value; its fault_sequences are edits of the input and the oracle would be an independent spec validator, which no scheduler/clock/disk seam can stand in for',
    'C03': 'pure function of the input JSON (acceptance and content preservation of valid objects)',
    'C04': 'pure function of (input, allow_custom switch)',
    'C08': 'pure predicate of (object, selector string)',
    'C09': 'pure function of pattern text; quantifies over programs, no schedule, clock, fault or history',
    'C10': 'pure function of pattern text / AST',
    'C15': 'pure function of (datetime, precision, constraint)',
    'C16': 'pure function of a JSON value (RFC 8785 conformance)',
    'C20': 'pure function on a 101-point domain; enumerable, but enumeration is not this technique',
}

NOT_YET = {k: 'check not built yet at this commit (simulation applies; planned in DESIGN.md §3/§10) - not claimed until it is' for k in
           ['C06', 'C07', 'C11', 'C12', 'C13', 'C14', 'C17', 'C18', 'C19'] if k not in CLAIMED}


def main():
    import os
    here = os.path.dirname(os.path.abspath(__file__))
    checks = []
    for pid in sorted(CLAIMED):
        c = CLAIMED[pid]
        checks.append(dict(
            property_id=pid,
            quick_cmd='./check %s quick' % pid,
            thorough_cmd='./check %s thorough' % pid,
            evidence_file='/verif/evidence/%s.json' % pid,
            replay_cmd_template='./check replay {path}',
            engine='sim',
            level_claimed=dict(category='exploration', text=c['text'], design_ref=c['design']),
            level_note=c['note'],
            technique=c['technique'],
        ))
    na = [dict(property_id=k, reason=v) for k, v in sorted(dict(NA, **NOT_YET).items())]
    m = dict(
        version=1,
        setup_cmd='./check setup',
        hooks=dict(guard='STIX2_VERIF_SIM', enable='no hooks in /repo: all seams (STIXdatetime.now, uuid.uuid4, os/io file access under the sim root, registry snapshot) are installed from outside by /verif/sim/seams.py; workers import stix2 from $VERIF_REPO (default /repo)',
                   baseline_off_cmd='cd /repo && /venv/bin/python -m pytest -ra -q -p no:cacheprovider --timeout=900 --continue-on-collection-errors',
                   source_commits=[], add_only=True),
        engines=[dict(name='sim', path='/verif/sim', serves_properties=sorted(CLAIMED),
                      kind_free_text='deterministic simulator: seeded plan generator, simulated clock/uuid4/disk/registries, reference-model oracles, ddmin minimiser, replay files; workers are separate interpreters with explicit PYTHONHASHSEED')],
        checks=checks,
        not_applicable=na,
        notes='See DESIGN.md. Exit codes: 0 held, 1 violation (VIOLATION line), 2 harness error. VERIF_SEED / VERIF_TIER / VERIF_RUNS / VERIF_WORKERS honoured.',
    )
    with open(os.path.join(here, 'MANIFEST.json'), 'w') as f:
        json.dump(m, f, indent=1)
        f.write('\n')


if __name__ == '__main__':
    main()
