"""Deep value fingerprints (own recursive walker; copy.deepcopy is library-adjacent and not used).

fingerprint(x) is a hashable nested tuple that records container types, key
order, scalar types and values and, for datetimes, the precision metadata the
library attaches.  Two fingerprints are equal iff nothing observable changed.
"""
import datetime as _dt


def _is_stix(x):
    return hasattr(x, '_inner') and hasattr(x, 'serialize')


_SCALARS = (str, int, float, bool, type(None), bytes)


def fingerprint(x, _depth=0):
    t = type(x)
    if t in _SCALARS:
        return (t.__name__, x)
    if _depth > 60:
        return ('too-deep',)
    if t is dict:
        return ('dict', 'dict', tuple([(k, fingerprint(v, _depth + 1)) for k, v in x.items()]))
    if t is list:
        return ('list', tuple([fingerprint(v, _depth + 1) for v in x]))
    if _depth > 60:
        return ('too-deep',)
    if _is_stix(x):
        inner = x.__dict__.get('_inner', {})
        return ('stix', type(x).__name__, tuple((k, fingerprint(v, _depth + 1)) for k, v in inner.items()),
                tuple(x.__dict__.get('_defaulted_optional_properties', ()) or ()))
    if isinstance(x, dict):
        return ('dict', type(x).__name__, tuple((k, fingerprint(v, _depth + 1)) for k, v in x.items()))
    if isinstance(x, list):
        return ('list', tuple(fingerprint(v, _depth + 1) for v in x))
    if isinstance(x, tuple):
        return ('tuple', tuple(fingerprint(v, _depth + 1) for v in x))
    if isinstance(x, (set, frozenset)):
        return ('set', tuple(sorted(repr(fingerprint(v, _depth + 1)) for v in x)))
    if isinstance(x, _dt.datetime):
        return ('datetime', x.isoformat(), str(getattr(x, 'precision', None)), str(getattr(x, 'precision_constraint', None)))
    if isinstance(x, _dt.date):
        return ('date', x.isoformat())
    if isinstance(x, (str, bytes, int, float, bool)) or x is None:
        return (type(x).__name__, x)
    return ('other', type(x).__name__, repr(x))


def containers(x, acc=None, _depth=0):
    """ids of all mutable containers reachable from x (for deep-copy disjointness)."""
    if acc is None:
        acc = set()
    if _depth > 60:
        return acc
    if _is_stix(x):
        acc.add(id(x))
        inner = x.__dict__.get('_inner')
        if inner is not None:
            acc.add(id(inner))
            for v in inner.values():
                containers(v, acc, _depth + 1)
    elif isinstance(x, dict):
        acc.add(id(x))
        for v in x.values():
            containers(v, acc, _depth + 1)
    elif isinstance(x, list):
        acc.add(id(x))
        for v in x:
            containers(v, acc, _depth + 1)
    elif isinstance(x, tuple):
        for v in x:
            containers(v, acc, _depth + 1)
    return acc


def first_difference(a, b, path='$'):
    """Human-readable location of the first difference between two fingerprints."""
    if a == b:
        return None
    if type(a) != type(b) or not isinstance(a, tuple) or len(a) != len(b) or (a and b and a[0] != b[0]):
        return '%s: %r != %r' % (path, _short(a), _short(b))
    for i, (x, y) in enumerate(zip(a, b)):
        if x != y:
            if isinstance(x, tuple) and isinstance(y, tuple):
                return first_difference(x, y, '%s/%d' % (path, i))
            return '%s/%d: %r != %r' % (path, i, _short(x), _short(y))
    return '%s: differ' % path


def _short(v):
    s = repr(v)
    return s if len(s) < 200 else s[:200] + '...'
