"""Independent evaluator of datastore filters over plain JSON (nothing imported from stix2).

Semantics (the documented ones): a filter holds for an object iff the property addressed by the
dotted path exists and the operator holds for its value, or - for list-valued steps - for at least
one element.  Timestamp strings are compared as instants.  Absent property => no match, for every
operator (including !=).
"""
from . import tsparse


# properties whose values ARE timestamps; a timestamp-looking string anywhere else (a name, a description) is text
TS_PROPS = {'created', 'modified', 'valid_from', 'valid_until', 'first_seen', 'last_seen', 'first_observed', 'last_observed', 'published',
            'start', 'end', 'date', 'submitted', 'analysis_started', 'analysis_ended', 'ctime', 'mtime', 'atime', 'created_time',
            'modified_time', 'account_created', 'account_expires', 'credential_last_changed', 'account_first_login', 'account_last_login'}


def _cmpval(v, ts=True):
    if ts and isinstance(v, str) and len(v) >= 20 and v[-1] == 'Z' and tsparse.is_timestamp(v):
        return ('ts', tsparse.us_of(v))
    if isinstance(v, bool):
        return ('bool', v)
    if isinstance(v, (int, float)):
        return ('num', v)
    if isinstance(v, str):
        return ('str', v)
    return ('other', repr(v))


def _leaf(x, op, value, ts=True):
    if op == 'in':
        return any(_cmpval(x, ts) == _cmpval(v, ts) for v in value)
    if op == 'contains':
        # only generated against list elements with values for which element-equality and substring coincide
        return _cmpval(x, ts) == _cmpval(value, ts)
    a, b = _cmpval(x, ts), _cmpval(value, ts)
    if op == '=':
        return a == b
    if op == '!=':
        return a != b
    if a[0] != b[0]:
        raise TypeError('unlike types in ordering filter: %r %s %r' % (x, op, value))
    if op == '<':
        return a[1] < b[1]
    if op == '<=':
        return a[1] <= b[1]
    if op == '>':
        return a[1] > b[1]
    if op == '>=':
        return a[1] >= b[1]
    raise ValueError(op)


def holds(obj, path, op, value):
    first, _, rest = path.partition('.')
    if not isinstance(obj, dict) or first not in obj:
        return False
    v = obj[first]
    if rest:
        if isinstance(v, list):
            return any(holds(e, rest, op, value) for e in v)
        return holds(v, rest, op, value)
    ts = first in TS_PROPS
    if isinstance(v, list):
        return any(_leaf(e, op, value, ts) for e in v)
    return _leaf(v, op, value, ts)


def matches(obj, filters):
    return all(holds(obj, p, op, v) for p, op, v in filters)


def values_at(obj, path):
    """All leaf values the path addresses in obj (list elements flattened)."""
    first, _, rest = path.partition('.')
    if not isinstance(obj, dict) or first not in obj:
        return []
    v = obj[first]
    if rest:
        if isinstance(v, list):
            out = []
            for e in v:
                out.extend(values_at(e, rest))
            return out
        return values_at(v, rest)
    return list(v) if isinstance(v, list) else [v]
