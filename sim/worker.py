"""Worker process: executes a slice of run indices for one property under one PYTHONHASHSEED.

argv[1] = path of a JSON job file, argv[2] = path where the JSON result is written.
"""
import collections
import faulthandler
import hashlib
import json
import os
import sys
import time


def main(argv):
    job = json.load(open(argv[1]))
    out_path = argv[2]
    faulthandler.enable()
    if job.get('dump_after'):
        faulthandler.dump_traceback_later(job['dump_after'], exit=True)
    sys.path.insert(0, os.path.dirname(os.path.dirname(os.path.abspath(__file__))))
    from sim import core
    core.import_repo()
    profile = core.get_profile(job['property'])
    known = core.load_known()
    prop = job['property']
    tier = job['tier']
    base = job['base_seed']
    hash_seed = os.environ.get('PYTHONHASHSEED')

    agg = collections.Counter()
    states = set()
    plan_digests = []
    digests = {}
    groups = {}
    violations = []
    known_hits = collections.Counter()
    harness_errors = []
    samples = []
    sim = dict(clock_reads=0, min=None, max=None, uuid4=0)
    runs = 0
    t0 = time.time()
    deadline = job.get('deadline')
    stopped_early = False

    for index in job['indices']:
        if deadline and time.time() > deadline:
            stopped_early = True
            break
        rs, plan = core.plan_for(profile, base, tier, index)
        res = core.execute(profile, plan)
        runs += 1
        if job.get('twice'):
            again = core.execute(profile, plan)
            if again.digest != res.digest or again.verdict != res.verdict:
                harness_errors.append(dict(run_index=index, run_seed=rs,
                                           error='same plan, same interpreter, different digest/verdict'))
        agg.update(res.stats)
        for k, v in res.stats.items():
            if k.startswith('known:'):
                known_hits[k[len('known:'):]] += v
        agg['ops'] += res.nops
        states |= res.states
        if job.get('want_digests'):
            digests[str(index)] = res.digest
        if res.group_digest is not None and res.verdict == 'ok':
            groups[str(index)] = res.group_digest
        if res.sim:
            sim['clock_reads'] += res.sim['clock_reads']
            sim['uuid4'] += res.sim['uuid4']
            for k, f in (('min', min), ('max', max)):
                if res.sim[k] is not None:
                    sim[k] = res.sim[k] if sim[k] is None else f(sim[k], res.sim[k])
        if res.nontrivial:
            plan_digests.append(hashlib.sha256(core.canon(plan).encode()).hexdigest()[:16])
            if len(samples) < 3 or (len(plan['ops']) < max(len(s['plan']['ops']) for s in samples)):
                samples.append(dict(run_index=index, run_seed=rs, plan=plan))
                samples.sort(key=lambda s: len(s['plan']['ops']))
                del samples[3:]
        if res.verdict == 'harness_error':
            harness_errors.append(dict(run_index=index, run_seed=rs, error=res.error))
            if len(harness_errors) > 5:
                break
        elif res.verdict == 'violation':
            sig = res.violation['signature']
            if (prop, sig) in known:
                known_hits[sig] += 1
                continue
            if len(violations) >= 3:
                agg['violations_not_minimised'] += 1
                continue
            meta = dict(base_seed=base, tier=tier, run_index=index, run_seed=rs, hash_seed=hash_seed)
            mplan, tries = core.minimise(profile, plan, res.violation)
            final = core.execute(profile, mplan)
            if not core.same_failure(final, res.violation):
                mplan, final = plan, res
            meta['minimise_tries'] = tries
            meta['original_ops'] = len(plan['ops'])
            path = core.write_replay(prop, meta, mplan, final.violation, final.digest)
            violations.append(dict(run_index=index, run_seed=rs, signature=sig, oracle=res.violation['oracle'],
                                   replay=path, detail=final.violation.get('detail'), ops=len(mplan['ops'])))

    result = dict(
        runs=runs, stats=dict(agg), states=sorted(core.canon(list(s)) for s in states),
        plan_digests=plan_digests, digests=digests, groups=groups, violations=violations,
        known_hits=dict(known_hits), harness_errors=harness_errors, samples=samples, sim=sim,
        wall_s=time.time() - t0, hash_seed=hash_seed, stopped_early=stopped_early,
    )
    tmp = out_path + '.tmp'
    with open(tmp, 'w') as f:
        json.dump(result, f, default=core._json_default)
    os.replace(tmp, out_path)
    return 0


if __name__ == '__main__':
    sys.exit(main(sys.argv))
