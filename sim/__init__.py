"""Deterministic simulation harness for cti-python-stix2 (see /verif/DESIGN.md)."""
