"""Independent RFC 8785 (JSON Canonicalization Scheme) writer and UUIDv5 (nothing imported from stix2).

canonical(value) -> str.  Members sorted by UTF-16 code units of the keys, no insignificant
whitespace, minimal string escapes, numbers in ECMAScript Number::toString form.
"""
import hashlib
import math
import uuid

_ESC = {'"': '\\"', '\\': '\\\\', '\b': '\\b', '\f': '\\f', '\n': '\\n', '\r': '\\r', '\t': '\\t'}


def _string(s):
    out = ['"']
    for ch in s:
        if ch in _ESC:
            out.append(_ESC[ch])
        elif ord(ch) < 0x20:
            out.append('\\u%04x' % ord(ch))
        else:
            out.append(ch)
    out.append('"')
    return ''.join(out)


def _utf16_key(s):
    return s.encode('utf-16-be', 'surrogatepass')


def es6_number(x):
    """ECMAScript Number::toString for a finite double or an int."""
    if isinstance(x, bool):
        raise TypeError('bool is not a number')
    if isinstance(x, int):
        if abs(x) < 2 ** 53:
            return str(x)
        x = float(x)
    if math.isnan(x) or math.isinf(x):
        raise ValueError('NaN/Infinity not allowed')
    if x == 0:
        return '0'
    sign = '-' if x < 0 else ''
    x = abs(x)
    r = repr(x)              # shortest round-trip digits
    if 'e' in r:
        mant, exp = r.split('e')
        exp = int(exp)
    else:
        mant, exp = r, 0
    if '.' in mant:
        ip, fp = mant.split('.')
    else:
        ip, fp = mant, ''
    digits = (ip + fp).lstrip('0')
    # value = 0.DIGITS * 10^n  with n = position of the decimal point
    n = len(ip.lstrip('0')) + exp if ip.strip('0') else exp - (len(fp) - len(fp.lstrip('0')))
    digits = digits.rstrip('0') or '0'
    k = len(digits)
    if k <= n <= 21:
        return sign + digits + '0' * (n - k)
    if 0 < n <= 21:
        return sign + digits[:n] + '.' + digits[n:]
    if -6 < n <= 0:
        return sign + '0.' + '0' * (-n) + digits
    e = n - 1
    es = ('+' if e >= 0 else '-') + str(abs(e))
    if k == 1:
        return sign + digits + 'e' + es
    return sign + digits[0] + '.' + digits[1:] + 'e' + es


def canonical(v):
    if v is None:
        return 'null'
    if v is True:
        return 'true'
    if v is False:
        return 'false'
    if isinstance(v, (int, float)):
        return es6_number(v)
    if isinstance(v, str):
        return _string(v)
    if isinstance(v, (list, tuple)):
        return '[' + ','.join(canonical(x) for x in v) + ']'
    if isinstance(v, dict):
        items = sorted(v.items(), key=lambda kv: _utf16_key(kv[0]))
        return '{' + ','.join(_string(k) + ':' + canonical(x) for k, x in items) + '}'
    raise TypeError(type(v))


def uuid5(namespace_hex, name):
    ns = uuid.UUID(namespace_hex).bytes
    h = bytearray(hashlib.sha1(ns + name.encode('utf-8')).digest()[:16])
    h[6] = (h[6] & 0x0f) | 0x50
    h[8] = (h[8] & 0x3f) | 0x80
    hx = bytes(h).hex()
    return '%s-%s-%s-%s-%s' % (hx[:8], hx[8:12], hx[12:16], hx[16:20], hx[20:])
