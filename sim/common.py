"""Helpers shared by the profiles (observation of library objects, value generators)."""
import datetime as _dt
import json

from . import tsparse

_EPOCH_NAIVE = _dt.datetime(1970, 1, 1)
_US = _dt.timedelta(microseconds=1)


def dt_to_us(d):
    """datetime -> integer microseconds since the epoch (integer arithmetic on timedeltas)."""
    if d.tzinfo is not None:
        off = d.utcoffset() or _dt.timedelta(0)
        d = d.replace(tzinfo=None) - off
    return (d - _EPOCH_NAIVE) // _US


def to_json(x, defaults=True):
    """JSON value of a library object or dict, via the library's own serializer."""
    import stix2.serialization
    return json.loads(stix2.serialization.serialize(x, include_optional_defaults=defaults))


def to_text(x):
    import stix2.serialization
    return stix2.serialization.serialize(x)


def instant_us(v):
    """A `created`/`modified` value as found in an object or dict -> microseconds."""
    if isinstance(v, str):
        return tsparse.us_of(v)
    return dt_to_us(v)


def prec_us(us, ver):
    """Truncate to what a serialisation at the spec version's precision keeps."""
    return tsparse.trunc_ms(us) if ver == '2.0' else us


def lib_errors():
    import stix2.exceptions
    return (stix2.exceptions.STIXError, ValueError, TypeError)


STRINGS = [
    'a', 'name', 'Ünïcödé ✓', 'tab\there', 'quote"s\\back', 'line\nbreak', '\U0001F600 astral', 'x' * 300, ' lead', 'trail ',
    '0', 'false', 'null', 'é' * 40, 'comma, and: colon',
]


def pick_string(rng):
    return rng.choice(STRINGS) + (str(rng.randrange(1000)) if rng.random() < 0.5 else '')


def shuffled(rng, seq):
    seq = list(seq)
    rng.shuffle(seq)
    return seq


def weighted(rng, table):
    """table: list of (item, weight)."""
    tot = sum(w for _, w in table)
    x = rng.random() * tot
    for item, w in table:
        x -= w
        if x < 0:
            return item
    return table[-1][0]


def swarm_weights(rng, kinds, keep=0.75, must=()):
    """Swarm testing: each kind is enabled with probability `keep` and gets a random weight."""
    out = []
    for k in kinds:
        if k in must or rng.random() < keep:
            out.append((k, rng.choice([1, 1, 2, 3, 5])))
    if not out:
        out = [(rng.choice(list(kinds)), 1)]
    return out
