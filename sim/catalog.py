"""Frozen, hand-written reference data: valid JSON templates for the implemented STIX types.

Nothing here is introspected from the code under test.  A template is
(minimal dict, optional additions).  Ids and versioning timestamps are filled
in by the plan generators.
"""
import hashlib
import uuid

TLP = {
    'white': 'marking-definition--613f2e26-407d-48c7-9eca-b8e91df99dc9',
    'green': 'marking-definition--34098fce-860f-48ae-8e50-ebd3cc5e41da',
    'amber': 'marking-definition--f88d31f6-486f-44da-b317-01333bde0b82',
    'red': 'marking-definition--5e57c739-391a-4eb3-b6be-7d15ca92d5ed',
}
STATEMENT_MARKINGS = [
    'marking-definition--11111111-2222-4333-8444-555555555555',
    'marking-definition--66666666-7777-4888-9999-aaaaaaaaaaaa',
]
MARKING_IDS = [TLP['white'], TLP['green'], TLP['amber'], TLP['red']] + STATEMENT_MARKINGS
LANGS = ['en', 'fr', 'de-CH']


def mkuuid(n, salt='id'):
    """Deterministic RFC 4122 version-4-shaped UUID number n."""
    h = hashlib.sha256(('%s:%d' % (salt, n)).encode()).digest()
    return str(uuid.UUID(bytes=h[:16], version=4))


def mkid(type_, n, salt='id'):
    return '%s--%s' % (type_, mkuuid(n, salt))


IDENT = mkid('identity', 900001, 'fixed')
IDENT2 = mkid('identity', 900002, 'fixed')
REF_MALWARE = mkid('malware', 900003, 'fixed')
REF_INDICATOR = mkid('indicator', 900004, 'fixed')
REF_CAMPAIGN = mkid('campaign', 900005, 'fixed')
REF_FILE = mkid('file', 900006, 'fixed')
REF_IPV4 = mkid('ipv4-addr', 900007, 'fixed')
REF_OBSERVED = mkid('observed-data', 900008, 'fixed')
REF_LOCATION = mkid('location', 900009, 'fixed')

EXTREF = [
    {'source_name': 'capec', 'external_id': 'CAPEC-163'},
    {'source_name': 'veris', 'url': 'https://example.com/a', 'description': 'd'},
]
KILLCHAIN = [{'kill_chain_name': 'lockheed-martin-cyber-kill-chain', 'phase_name': 'reconnaissance'}]

# ---- optional common properties (legal on every SDO / SRO) --------------------
COMMON_OPT_20 = {
    'created_by_ref': IDENT,
    'labels': ['label-a', 'label-b'],
    'external_references': EXTREF,
    'object_marking_refs': [TLP['green']],
}
COMMON_OPT_21 = dict(COMMON_OPT_20, confidence=55, lang='en')

# ---- STIX 2.0 -----------------------------------------------------------------
SDO20 = {
    'attack-pattern': ({'name': 'Spear Phishing'}, {'description': 'desc', 'kill_chain_phases': KILLCHAIN}),
    'campaign': ({'name': 'Green Group Attacks'}, {'description': 'desc', 'aliases': ['a1', 'a2'],
                                                   'first_seen': '2016-04-06T20:03:00.000Z', 'objective': 'obj'}),
    'course-of-action': ({'name': 'Add TCP port 80 Filter'}, {'description': 'desc'}),
    'identity': ({'name': 'John Smith', 'identity_class': 'individual'},
                 {'description': 'desc', 'sectors': ['technology'], 'contact_information': 'x@example.com'}),
    'indicator': ({'labels': ['malicious-activity'], 'pattern': "[file:hashes.MD5 = 'd41d8cd98f00b204e9800998ecf8427e']",
                   'valid_from': '2017-01-01T12:34:56Z'},
                  {'name': 'ind', 'description': 'desc', 'valid_until': '2018-01-01T12:34:56Z',
                   'kill_chain_phases': KILLCHAIN}),
    'intrusion-set': ({'name': 'Bobcat Breakin'}, {'description': 'desc', 'aliases': ['Zookeeper'],
                                                    'goals': ['acquisition-theft'], 'resource_level': 'organization',
                                                    'primary_motivation': 'organizational-gain'}),
    'malware': ({'name': 'Cryptolocker', 'labels': ['ransomware']}, {'description': 'desc', 'kill_chain_phases': KILLCHAIN}),
    'observed-data': ({'first_observed': '2015-12-21T19:00:00Z', 'last_observed': '2015-12-21T19:00:00Z',
                       'number_observed': 50,
                       'objects': {'0': {'type': 'file', 'name': 'foo.exe'},
                                   '1': {'type': 'directory', 'path': '/usr/home', 'contains_refs': ['0']}}}, {}),
    'report': ({'name': 'The Black Vine', 'labels': ['campaign'], 'published': '2016-01-20T17:00:00Z',
                'object_refs': [REF_INDICATOR, REF_CAMPAIGN]}, {'description': 'desc'}),
    'threat-actor': ({'name': 'Evil Org', 'labels': ['crime-syndicate']},
                     {'description': 'desc', 'aliases': ['e'], 'roles': ['agent'], 'sophistication': 'expert'}),
    'tool': ({'name': 'VNC', 'labels': ['remote-access']}, {'description': 'desc', 'tool_version': '1.0'}),
    'vulnerability': ({'name': 'CVE-2016-1234'}, {'description': 'desc'}),
}
SRO20 = {
    'relationship': ({'relationship_type': 'indicates', 'source_ref': REF_INDICATOR, 'target_ref': REF_MALWARE},
                     {'description': 'desc'}),
    'sighting': ({'sighting_of_ref': REF_INDICATOR},
                 {'first_seen': '2015-12-21T19:00:00Z', 'last_seen': '2015-12-22T19:00:00Z', 'count': 2,
                  'observed_data_refs': [REF_OBSERVED], 'where_sighted_refs': [IDENT2], 'summary': True}),
}

# ---- STIX 2.1 -----------------------------------------------------------------
SDO21 = {
    'attack-pattern': ({'name': 'Spear Phishing'}, {'description': 'desc', 'aliases': ['x'], 'kill_chain_phases': KILLCHAIN}),
    'campaign': ({'name': 'Green Group Attacks'}, {'description': 'desc', 'aliases': ['a1'],
                                                   'first_seen': '2016-04-06T20:03:00.123456Z', 'objective': 'obj'}),
    'course-of-action': ({'name': 'Add TCP port 80 Filter'}, {'description': 'desc'}),
    'grouping': ({'context': 'suspicious-activity', 'object_refs': [REF_MALWARE, REF_INDICATOR]},
                 {'name': 'g', 'description': 'desc'}),
    'identity': ({'name': 'John Smith'}, {'identity_class': 'individual', 'description': 'desc', 'roles': ['r'],
                                           'sectors': ['technology'], 'contact_information': 'x@example.com'}),
    'incident': ({'name': 'Incident 43'}, {'description': 'desc'}),
    'indicator': ({'pattern': "[file:hashes.MD5 = 'd41d8cd98f00b204e9800998ecf8427e']", 'pattern_type': 'stix',
                   'valid_from': '2017-01-01T12:34:56Z'},
                  {'name': 'ind', 'description': 'desc', 'indicator_types': ['malicious-activity'],
                   'pattern_version': '2.1', 'valid_until': '2018-01-01T12:34:56Z', 'kill_chain_phases': KILLCHAIN}),
    'infrastructure': ({'name': 'Poison Ivy C2'}, {'description': 'desc', 'infrastructure_types': ['command-and-control'],
                                                   'aliases': ['x'], 'first_seen': '2016-04-06T20:03:00Z'}),
    'intrusion-set': ({'name': 'Bobcat Breakin'}, {'description': 'desc', 'aliases': ['Zookeeper'],
                                                    'goals': ['acquisition-theft'], 'resource_level': 'organization',
                                                    'primary_motivation': 'organizational-gain'}),
    'location': ({'region': 'south-eastern-asia'}, {'name': 'loc', 'description': 'desc', 'country': 'th',
                                                    'latitude': 48.8566, 'longitude': 2.3522, 'precision': 10.5}),
    'malware': ({'is_family': False}, {'name': 'Cryptolocker', 'description': 'desc', 'malware_types': ['ransomware'],
                                       'aliases': ['x'], 'first_seen': '2016-04-06T20:03:00Z',
                                       'architecture_execution_envs': ['x86'], 'capabilities': ['anti-debugging'],
                                       'sample_refs': [REF_FILE]}),
    'malware-analysis': ({'product': 'microsoft', 'result': 'malicious'},
                         {'version': '1.0', 'analysis_started': '2020-01-01T00:00:00Z',
                          'analysis_sco_refs': [REF_FILE], 'sample_ref': REF_FILE}),
    'note': ({'content': 'This note...', 'object_refs': [REF_CAMPAIGN]}, {'abstract': 'abs', 'authors': ['John Doe']}),
    'observed-data': ({'first_observed': '2015-12-21T19:00:00Z', 'last_observed': '2015-12-21T19:00:00Z',
                       'number_observed': 50, 'object_refs': [REF_FILE, REF_IPV4]}, {}),
    'opinion': ({'opinion': 'strongly-disagree', 'object_refs': [REF_CAMPAIGN]}, {'explanation': 'because', 'authors': ['a']}),
    'report': ({'name': 'The Black Vine', 'published': '2016-01-20T17:00:00Z', 'object_refs': [REF_INDICATOR, REF_CAMPAIGN]},
               {'description': 'desc', 'report_types': ['campaign']}),
    'threat-actor': ({'name': 'Evil Org'}, {'description': 'desc', 'threat_actor_types': ['crime-syndicate'],
                                            'aliases': ['e'], 'roles': ['agent'], 'sophistication': 'expert',
                                            'first_seen': '2016-04-06T20:03:00Z'}),
    'tool': ({'name': 'VNC'}, {'description': 'desc', 'tool_types': ['remote-access'], 'tool_version': '1.0'}),
    'vulnerability': ({'name': 'CVE-2016-1234'}, {'description': 'desc'}),
}
SRO21 = {
    'relationship': ({'relationship_type': 'indicates', 'source_ref': REF_INDICATOR, 'target_ref': REF_MALWARE},
                     {'description': 'desc', 'start_time': '2016-01-01T00:00:00Z', 'stop_time': '2016-01-02T00:00:00Z'}),
    'sighting': ({'sighting_of_ref': REF_INDICATOR},
                 {'description': 'desc', 'first_seen': '2015-12-21T19:00:00Z', 'last_seen': '2015-12-22T19:00:00Z',
                  'count': 2, 'observed_data_refs': [REF_OBSERVED], 'where_sighted_refs': [IDENT2, REF_LOCATION],
                  'summary': True}),
}

# unversioned / special
MARKING_STATEMENT_20 = {'type': 'marking-definition', 'definition_type': 'statement',
                        'definition': {'statement': 'Copyright 2016, Example Corp'}}
MARKING_STATEMENT_21 = dict(MARKING_STATEMENT_20, spec_version='2.1')

# ---- STIX 2.1 SCOs: (minimal, additions, id-contributing property names per spec section "ID Contributing Properties")
SCO21 = {
    'artifact': ({'mime_type': 'image/jpeg', 'payload_bin': 'VBORw0KGgoAAAANSUhEUgAAADI=='}, {},
                 ['hashes', 'payload_bin']),
    'autonomous-system': ({'number': 15139}, {'name': 'Slime Industries', 'rir': 'ARIN'}, ['number']),
    'directory': ({'path': '/usr/home'}, {'path_enc': 'cGF0aF9lbmM', 'ctime': '2015-12-21T19:00:00Z'}, ['path']),
    'domain-name': ({'value': 'example.com'}, {}, ['value']),
    'email-addr': ({'value': 'john@example.com'}, {'display_name': 'John Doe'}, ['value']),
    'email-message': ({'is_multipart': False}, {'subject': 'Hi', 'body': 'text', 'date': '2016-06-19T14:20:40.000Z',
                                                'from_ref': mkid('email-addr', 900010, 'fixed')},
                      ['from_ref', 'subject', 'body']),
    'file': ({'name': 'foo.exe'}, {'hashes': {'SHA-256': 'ceafbfd424be2ca4a5f0402cae090dda2fb0526cf521b60b60077c0f622b285a'},
                                   'size': 25536, 'mime_type': 'application/x-dosexec',
                                   'parent_directory_ref': mkid('directory', 900011, 'fixed')},
             ['hashes', 'name', 'extensions', 'parent_directory_ref']),
    'ipv4-addr': ({'value': '198.51.100.3'}, {}, ['value']),
    'ipv6-addr': ({'value': '2001:0db8:85a3:0000:0000:8a2e:0370:7334'}, {}, ['value']),
    'mac-addr': ({'value': 'd2:fb:49:24:37:18'}, {}, ['value']),
    'mutex': ({'name': '__CLEANSWEEP__'}, {}, ['name']),
    'network-traffic': ({'protocols': ['tcp'], 'src_ref': REF_IPV4}, {'src_port': 2487, 'dst_port': 80,
                                                                    'start': '2016-01-01T00:00:00Z'},
                        ['start', 'end', 'src_ref', 'dst_ref', 'src_port', 'dst_port', 'protocols', 'extensions']),
    'process': ({'pid': 1221}, {'command_line': './gedit-bin --new-window', 'cwd': '/tmp'}, []),
    'software': ({'name': 'Word'}, {'cpe': 'cpe:2.3:a:microsoft:word:2000:*:*:*:*:*:*:*', 'vendor': 'Microsoft',
                                    'version': '2002'}, ['name', 'cpe', 'swid', 'vendor', 'version']),
    'url': ({'value': 'https://example.com/research/index.html'}, {}, ['value']),
    'user-account': ({'user_id': '1001'}, {'account_login': 'jdoe', 'account_type': 'unix', 'display_name': 'John Doe'},
                     ['account_type', 'user_id', 'account_login']),
    'windows-registry-key': ({'key': 'HKEY_LOCAL_MACHINE\\System\\Foo\\Bar'},
                             {'values': [{'name': 'Foo', 'data': 'qwerty', 'data_type': 'REG_SZ'}]}, ['key', 'values']),
    'x509-certificate': ({'issuer': 'C=ZA, ST=Western Cape, L=Cape Town, O=Thawte Consulting cc',
                          'serial_number': '36:f7:d4:32:f4:ab:70:ea:d3:ce:98:6e:ea:99:93:49:32:0a:b7:06'},
                         {'subject': 'C=US, ST=Maryland, L=Pasadena, O=Brent Baccala',
                          'hashes': {'MD5': 'd41d8cd98f00b204e9800998ecf8427e'}},
                         ['hashes', 'serial_number']),
}

# timestamp fractions met by versioning code (microseconds within the second)
FRACTIONS = [0, 1, 999, 1000, 123000, 123456, 999000, 999999]


def versioned_types(version):
    if version == '2.0':
        return sorted(SDO20) + sorted(SRO20)
    return sorted(SDO21) + sorted(SRO21)


def template(version, type_):
    if version == '2.0':
        t = SDO20.get(type_) or SRO20[type_]
    else:
        t = SDO21.get(type_) or SRO21[type_]
    return t


def normalize_rich(version, type_, keys):
    """Close a chosen subset of optional properties under the type's co-constraints."""
    keys = list(keys)
    if type_ == 'location':
        if any(k in keys for k in ('latitude', 'longitude', 'precision')):
            for k in ('latitude', 'longitude'):
                if k not in keys:
                    keys.append(k)
    return keys


def build(version, type_, id_n, created_us, modified_us, rich_keys=(), common_keys=(), extra=None):
    """Assemble the JSON dict of one object version from the catalog."""
    from . import tsparse
    minimal, rich = template(version, type_)[:2]
    d = {'type': type_, 'id': mkid(type_, id_n)}
    if version == '2.1':
        d['spec_version'] = '2.1'
        d['created'] = tsparse.fmt(created_us, min_digits=3)
        d['modified'] = tsparse.fmt(modified_us, min_digits=3)
    else:
        d['created'] = tsparse.fmt(tsparse.trunc_ms(created_us), digits=3)
        d['modified'] = tsparse.fmt(tsparse.trunc_ms(modified_us), digits=3)
    d.update(_copy(minimal))
    for k in normalize_rich(version, type_, rich_keys):
        if k in rich:
            d[k] = _copy(rich[k])
    common = COMMON_OPT_20 if version == '2.0' else COMMON_OPT_21
    for k in common_keys:
        if k in common and k not in d:
            d[k] = _copy(common[k])
    if extra:
        d.update(_copy(extra))
    return d


def _copy(v):
    import json
    return json.loads(json.dumps(v))
