"""Store world shared by the datastore profiles (C11, C12, C14, C18, parts of C13/C17).

Holds: the object pool described by the plan, a MemoryStore, a FileSystemStore over the simulated
disk, the list model (what was acknowledged, per store) and the observation / comparison helpers.
"""
import collections
import json
import os

from . import catalog as C
from . import common as U
from . import tsparse
from .core import Violation, call
from .seams import SimCrash, InjectedOSError

DEFAULT_DROPS = (('revoked', False), ('summary', False), ('defanged', False))


# --------------------------------------------------------------------------
# normalisation of JSON values for comparison
# --------------------------------------------------------------------------

def norm(j, top=True):
    """Normal form of a STIX JSON value: timestamps as instants, default-valued optional properties dropped."""
    if isinstance(j, dict):
        out = {}
        for k, v in j.items():
            if (k, v) in DEFAULT_DROPS and isinstance(v, bool):
                continue
            if k == 'pattern_version' and v == '2.1' and j.get('pattern_type') == 'stix':
                continue
            out[k] = norm(v, False)
        return out
    if isinstance(j, list):
        return [norm(v, False) for v in j]
    if isinstance(j, str) and len(j) >= 20 and j[-1] == 'Z' and j[4] == '-' and tsparse.is_timestamp(j):
        return {'$ts': tsparse.us_of(j)}
    return j


def key_of(j):
    """(id, modified instant or None) of a JSON object."""
    m = j.get('modified')
    return (j['id'], tsparse.us_of(m) if isinstance(m, str) else None)


def obj_key(o):
    m = o.get('modified') if hasattr(o, 'get') else None
    return (o['id'], U.instant_us(m) if m is not None else None)


def kstr(k):
    return '%s@%s' % (k[0], k[1])


# --------------------------------------------------------------------------
# pool
# --------------------------------------------------------------------------

SCO_POOL_TYPES = ['ipv4-addr', 'domain-name', 'file', 'url', 'mutex', 'autonomous-system', 'user-account', 'software']


def gen_pool(rng, index, n_ids, max_versions, kinds, digits_mixed=False, versions=('2.0', '2.1'), upper_ids=0.0):
    """Describe a pool of objects.  `kinds` = weighted list of entry kinds."""
    pool = []
    for n in range(n_ids):
        kind = U.weighted(rng, kinds)
        ver = rng.choice(list(versions))
        e = {'kind': kind, 'ver': ver, 'id_n': index * 64 + n}
        base_us = (1483228800 + rng.randrange(0, 10 ** 8)) * 1000000 + rng.choice(C.FRACTIONS)
        nv = rng.randrange(1, max_versions + 1)
        if kind == 'sdo':
            e['type'] = rng.choice(C.versioned_types(ver))
            minimal, rich = C.template(ver, e['type'])[:2]
            common = C.COMMON_OPT_20 if ver == '2.0' else C.COMMON_OPT_21
            e['rich'] = [k for k in rich if rng.random() < 0.4]
            e['common'] = [k for k in common if rng.random() < 0.3 and k != 'labels']
        elif kind == 'sco':
            e['ver'] = ver = '2.1'
            e['type'] = rng.choice(SCO_POOL_TYPES)
            e['rich'] = rng.random() < 0.5
            nv = 0
        elif kind == 'marking':
            e['type'] = 'marking-definition'
            nv = 0
        elif kind == 'custom':
            e['type'] = 'x-sim-widget'
        elif kind == 'cobs':
            # a registered custom 2.1 observable that declares `modified` (and nothing else of the versioning properties): several
            # versions of one id, told apart by `modified` alone
            e['ver'] = ver = '2.1'
            e['type'] = 'x-sim-reading'
            nv = max(nv, 2) if rng.random() < 0.7 else nv
        elif kind == 'unreg':
            e['type'] = 'x-unreg-thing'
            e['digits'] = 'mixed' if digits_mixed else rng.choice([3, 6] if ver == '2.1' else [3])
            if rng.random() < 0.15:
                nv = 0
        elif kind == 'identity':
            e['type'] = 'identity'
        e['created_us'] = base_us - rng.choice([0, 1000, 1000000, 86400 * 1000000])
        step = lambda: rng.choice([1, 7, 999, 1000, 1001, 123456, 1000000, 59 * 1000000, 86400 * 1000000])
        mods = []
        m = base_us
        for _ in range(nv):
            mods.append(m)
            m += step()
        if ver == '2.0' or e.get('digits') == 3:
            # distinct at millisecond precision
            seen, out = set(), []
            for m in mods:
                t = tsparse.trunc_ms(m)
                while t in seen:
                    t += 1000
                seen.add(t)
                out.append(t)
            mods = out
            if ver == '2.0':
                e['created_us'] = tsparse.trunc_ms(e['created_us'])
        e['versions'] = mods
        if kind in ('sdo', 'unreg', 'custom') and rng.random() < 0.12:
            e['big'] = rng.choice([9000, 20000, 70000])      # serialises to more than one write buffer
        if upper_ids and kind in ('sdo', 'identity', 'unreg', 'custom') and rng.random() < upper_ids:
            e['id_case'] = rng.choice(['upper', 'upper', 'mixed'])
        if upper_ids and kind in ('sdo', 'identity', 'custom') and rng.random() < 0.5:
            e['dt_off'] = rng.choice([330, -480, 60, 765, -1])       # minutes east of UTC
        pool.append(e)
    return pool


HAS_DESCRIPTION = {'attack-pattern', 'campaign', 'course-of-action', 'identity', 'indicator', 'intrusion-set', 'malware', 'report', 'threat-actor',
                   'tool', 'vulnerability'}


def content(pool, k, j):
    """JSON dict of version j of pool entry k (pure function of the plan)."""
    e = pool[k]
    kind, ver = e['kind'], e['ver']
    if kind in ('sdo', 'identity'):
        d = C.build(ver, e['type'], e['id_n'], e['created_us'], e['versions'][j], e.get('rich', ()), e.get('common', ()))
        d['id'] = eid(e)
        d['labels'] = list(d.get('labels', [])) + ['v%d' % j]
        if 'creator' in e:
            d['created_by_ref'] = eid(pool[e['creator']])
        if kind == 'identity':
            d['name'] = 'identity %d v%d' % (e['id_n'], j)
        if e['id_n'] % 7 == 3 and e['type'] in HAS_DESCRIPTION and (j % 2 == 0 or e['id_n'] % 2):
            # a property that is present and EMPTY (legal): it is there for every filter - equal to '', different from anything else
            d['description'] = ''
        if e.get('big'):
            # several strings, each larger than a write buffer: the file reaches the disk in several writes
            d['labels'] = d['labels'] + ['L%d' % i + 'L' * 9000 for i in range(1 + e['big'] // 9000)]
        return d
    if kind == 'rel':
        d = C.build(ver, 'relationship', e['id_n'], e['created_us'], e['versions'][j])
        d['id'] = eid(e)
        d['relationship_type'] = e['rtype']
        d['source_ref'] = pool_id(pool, e['src'])
        d['target_ref'] = pool_id(pool, e['dst'])
        if e.get('flip') and e['flip'][j % len(e['flip'])]:
            # a later version may correct the direction of a relationship (only type, id, created, created_by_ref are fixed)
            d['source_ref'], d['target_ref'] = d['target_ref'], d['source_ref']
        d['labels'] = ['v%d' % j]
        if 'creator' in e:
            d['created_by_ref'] = eid(pool[e['creator']])
        return d
    if kind == 'sco':
        minimal, rich = C.SCO21[e['type']][:2]
        d = {'type': e['type'], 'spec_version': '2.1', 'id': eid(e)}
        d.update(C._copy(minimal))
        if e.get('rich'):
            d.update(C._copy(rich))
        return d
    if kind == 'marking':
        d = dict(C.MARKING_STATEMENT_21 if ver == '2.1' else C.MARKING_STATEMENT_20)
        d['id'] = eid(e)
        d['created'] = tsparse.fmt(tsparse.trunc_ms(e['created_us']), digits=3)
        d['definition'] = {'statement': 'Copyright %d' % e['id_n']}
        return d
    if kind == 'custom':
        d = {'type': 'x-sim-widget', 'id': eid(e), 'name': 'widget v%d' % j, 'size': j}
        if e.get('big'):
            d['labels'] = ['W%d' % i + 'W' * 9000 for i in range(1 + e['big'] // 9000)]
        _stamp(d, e, j, 3 if ver == '2.0' else None)
        return d
    if kind == 'cobs':
        return {'type': 'x-sim-reading', 'spec_version': '2.1', 'id': eid(e), 'name': 'reading v%d' % j, 'value': j,
                'modified': tsparse.fmt(e['versions'][j], min_digits=3)}
    if kind == 'unreg':
        d = {'type': 'x-unreg-thing', 'id': eid(e), 'name': 'thing v%d' % j,
             'x_list': [1, 2, {'a': 'b'}] + ['U%d' % i + 'U' * 9000 for i in range((e.get('big', 0) + 8999) // 9000)]}
        if e['versions']:
            _stamp(d, e, j, e.get('digits', 3))
        else:
            if ver == '2.1':
                d['spec_version'] = '2.1'
        return d
    raise ValueError(kind)


def _stamp(d, e, j, digits):
    ver = e['ver']
    m = e['versions'][j]
    if ver == '2.1':
        d['spec_version'] = '2.1'
    if digits == 'mixed':
        d['created'] = tsparse.fmt(e['created_us'], min_digits=3)
        d['modified'] = tsparse.fmt(m, min_digits=(3 if ver == '2.1' else 0))
    elif digits is None:
        d['created'] = tsparse.fmt(e['created_us'], min_digits=3)
        d['modified'] = tsparse.fmt(m, min_digits=3)
    elif digits == 3:
        d['created'] = tsparse.fmt(tsparse.trunc_ms(e['created_us']), digits=3)
        d['modified'] = tsparse.fmt(tsparse.trunc_ms(m), digits=3)
    else:
        d['created'] = tsparse.fmt(e['created_us'], digits=6)
        d['modified'] = tsparse.fmt(m, digits=6)


def recase(sid, case):
    """The same identifier with its UUID spelled in upper / mixed case hexadecimal (legal: UUIDs are case-insensitive on
    input and the library keeps and files identifiers as given)."""
    if not case or '--' not in sid:
        return sid
    t, u = sid.split('--', 1)
    if case == 'upper':
        return t + '--' + u.upper()
    return t + '--' + ''.join(ch.upper() if i % 2 else ch for i, ch in enumerate(u))


def eid(e):
    return recase(C.mkid(e['type'], e['id_n']), e.get('id_case'))


def pool_id(pool, k):
    e = pool[k % len(pool)]
    return eid(e)


def n_versions(e):
    return max(1, len(e['versions']))


# --------------------------------------------------------------------------
# engine
# --------------------------------------------------------------------------

class StoreWorld(object):
    """Stores + list model + comparison.  `pid` prefixes violation signatures."""

    def __init__(self, world, plan, pid):
        import stix2
        self.stix2 = stix2
        self.world = world
        self.plan = plan
        self.pid = pid
        self.pool = plan['pool']
        self.cfg = plan['config']
        self.disk = world.disk
        # granularity of the simulated filesystem's time stamps (see SimDisk.touch): part of the plan
        self.disk.mtime_gran = self.cfg.get('mtime_gran', 1)
        if self.disk.mtime_gran != 1:
            world.probe('coarse_file_timestamps')
        self.fsdir = os.path.join(self.disk.root, 'fs')
        os.mkdir(self.fsdir)
        self.savedir = os.path.join(self.disk.root, 'save')
        os.mkdir(self.savedir)
        self.models = {'M': {}, 'F': {}}
        self.torn = False
        if self.cfg.get('early_parse'):
            # history: content of the custom type passes through the parser BEFORE the type is registered (it comes back as
            # a dictionary then, as documented); what is stored after the registration must not be affected by that
            for extra in ({'spec_version': '2.1'}, {}):
                call(self.stix2.parse, dict({'type': 'x-sim-widget', 'id': 'x-sim-widget--' + C.mkuuid(991, 'early'), 'name': 'early',
                                             'created': '2017-01-01T00:00:00.000Z', 'modified': '2017-01-01T00:00:00.000Z'}, **extra),
                     allow_custom=True)
            world.probe('type_parsed_before_registration')
        self.register_customs()
        self.registered_names = ({'x-sim-widget', 'x-sim-reading', 'marking-definition'} | set(C.SDO20) | set(C.SRO20) | set(C.SDO21) | set(C.SRO21) | set(C.SCO21))
        self.M = self.F = None
        self.make_memory()
        self.make_fs()

    # -- construction ------------------------------------------------------
    def register_customs(self):
        s = self.stix2
        from stix2.properties import IntegerProperty, StringProperty
        props = [('name', StringProperty(required=True)), ('size', IntegerProperty())]

        @s.v21.CustomObject('x-sim-widget', props)
        class Widget21(object):
            pass

        @s.v20.CustomObject('x-sim-widget', props)
        class Widget20(object):
            pass
        self.Widget21, self.Widget20 = Widget21, Widget20
        from stix2.properties import TimestampProperty

        @s.v21.CustomObservable('x-sim-reading', [('name', StringProperty(required=True)), ('value', IntegerProperty()),
                                                  ('modified', TimestampProperty(precision='millisecond', precision_constraint='min'))])
        class Reading21(object):
            pass
        self.Reading21 = Reading21
        # two registered toplevel-property extensions (an object may name both)
        self.TL_A = 'extension-definition--' + C.mkuuid(1, 'sim-toplevel')
        self.TL_B = 'extension-definition--' + C.mkuuid(2, 'sim-toplevel')

        @s.v21.CustomExtension(self.TL_A, [('rank', IntegerProperty())])
        class TopLevelA(object):
            extension_type = 'toplevel-property-extension'

        @s.v21.CustomExtension(self.TL_B, [('score', IntegerProperty(required=True)), ('toxicity', IntegerProperty())])
        class TopLevelB(object):
            extension_type = 'toplevel-property-extension'

    def make_memory(self):
        ac = self.cfg.get('m_allow_custom', True)
        self.M = self.stix2.MemoryStore(allow_custom=ac)
        self.models['M'] = {}

    def make_fs(self):
        kw = {}
        if self.cfg.get('fs_allow_custom', True) is not None:
            kw['allow_custom'] = self.cfg.get('fs_allow_custom', True)
        if self.cfg.get('bundlify'):
            kw['bundlify'] = True
        if self.cfg.get('rel_path'):
            # the application names its store directory RELATIVE to the working directory it has at that moment
            os.chdir(self.disk.root)
            self.F = self.stix2.FileSystemStore(os.path.relpath(self.fsdir, self.disk.root), **kw)
            self.world.probe('store_directory_given_as_relative_path')
        else:
            self.F = self.stix2.FileSystemStore(self.fsdir, **kw)

    def chdir(self, n):
        """Something unrelated in the process changes the working directory - to a directory that has an entry of the same
        name as the store directory (holding other content) or to one that has none.  A store keeps reading and writing the
        directory it was created on."""
        decoy = os.path.join(self.disk.root, 'elsewhere%d' % (n % 2))
        if not os.path.isdir(decoy):
            os.mkdir(decoy)
            if n % 2 == 0:
                other = {'type': 'identity', 'spec_version': '2.1', 'id': C.mkid('identity', 424242, 'decoy'), 'name': 'decoy',
                         'created': '2019-01-01T00:00:00.000Z', 'modified': '2019-01-01T00:00:00.000Z'}
                self.disk.raw_write('elsewhere0/fs/identity/%s/20190101000000000.json' % other['id'], json.dumps(other).encode('utf-8'))
        os.chdir(decoy if n % 3 else self.disk.root)
        self.world.probe('working_directory_changed')
        self.world.log(op='chdir', to=os.path.relpath(os.getcwd(), self.disk.root))

    def store(self, name):
        return self.M if name == 'M' else self.F

    # -- building inputs ---------------------------------------------------
    def with_offset_datetimes(self, src, e, n):
        """For entries marked `dt_off`, every other version: the caller gives created / modified as datetime OBJECTS with a
        non-zero UTC offset (the same instants) - what counts everywhere is the instant, not the wall-clock digits."""
        off = e.get('dt_off')
        if off is not None and n % 2 == 0:
            import datetime as _dt
            tz = _dt.timezone(_dt.timedelta(minutes=off))
            for name in ('created', 'modified'):
                if isinstance(src.get(name), str):
                    us = tsparse.us_of(src[name])
                    src[name] = (_dt.datetime(1970, 1, 1, tzinfo=_dt.timezone.utc) + _dt.timedelta(microseconds=us)).astimezone(tz)
            self.world.probe('timestamps_given_as_datetimes_with_utc_offset')
        return src

    def make_input(self, k, j, form):
        """Returns (value to hand to add, json dict) or (None, json) if the object cannot be built."""
        d = content(self.pool, k, j)
        e = self.pool[k % len(self.pool)]
        if form == 'obj' and e['kind'] != 'unreg':
            src = self.with_offset_datetimes(C._copy(d), e, k + j)
            o = call(self.stix2.parse, src, allow_custom=True)
            if not o.ok or isinstance(o.value, dict):
                self.world.stat('build_failed')
                return None, d
            return o.value, d
        if form == 'text':
            return json.dumps(d), d
        return C._copy(d), d

    # -- observation -------------------------------------------------------
    def observe(self, objs):
        out = []
        for o in objs:
            if type(o) is dict and o.get('type') in self.registered_names:
                # stores parse what they are given / read: a plain dictionary comes back only for types without a registered class
                raise Violation('class-of-returned-object', '%s.returned-plain-dict-for-registered-type' % self.pid,
                                dict(type=o.get('type'), id=o.get('id')))
            j = U.to_json(o, defaults=False)
            out.append((obj_key(o), norm(j), j))
        return out

    STRAY_NAMES = ['.snapshot', 'tmp', 'lost+found', '.ipynb_checkpoints', '0-first', 'zz-last', '.git', 'Backup of identity']

    def stray(self, k, n, where):
        """The environment puts something into the store directory that no add produced: a directory that is no id directory
        (with a file that is no .json file in it) inside a type directory - which may not exist yet, i.e. a pre-created, empty
        skeleton - or at the top.  None of it is STIX content; reads behave as if it were not there."""
        name = self.STRAY_NAMES[n % len(self.STRAY_NAMES)]
        e = self.pool[k % len(self.pool)]
        rel = 'fs/%s/%s/keep.txt' % (e['type'], name) if where != 'root' else 'fs/%s/keep.txt' % name
        if where == 'skeleton':
            rel = 'fs/%s/.keep' % e['type']          # the type directory exists, with no id directory in it (yet)
        self.disk.raw_write(rel, b'not STIX content\n')
        self.world.probe('stray_entry_in_store_directory')
        self.world.log(op='stray', rel=rel)

    def disk_model(self):
        """(id, mod) -> normalised JSON for every decodable file under the fs root; plus list of undecodable files."""
        files = self.disk.raw_listing()
        out, torn = {}, []
        for rel, data in sorted(files.items()):
            if not rel.startswith('fs/') or not rel.endswith('.json'):
                continue        # (the library writes and reads *.json files only)
            try:
                j = json.loads(data.decode('utf-8'))
                if isinstance(j, dict) and j.get('type') == 'bundle':
                    j = j['objects'][0]
                out[key_of(j)] = (norm(j), rel)
            except Exception:
                torn.append(rel)
        return out, torn

    # -- comparison --------------------------------------------------------
    def expect_eq(self, read, store, observed, expected, extra=None):
        """observed: output of observe(); expected: dict key -> norm json."""
        self.world.compared()
        pid = self.pid
        okeys = collections.Counter(k for k, _, _ in observed)
        dup = [k for k, n in okeys.items() if n > 1]
        if dup:
            raise Violation('store-equals-list', '%s.%s/duplicate' % (pid, read),
                            dict(store=store, duplicated=[kstr(k) for k in dup[:5]], extra=extra))
        missing = [k for k in expected if k not in okeys]
        extra_k = [k for k in okeys if k not in expected]
        if missing or extra_k:
            cause = 'missing' if missing and not extra_k else 'extra' if extra_k and not missing else 'wrong-set'
            raise Violation('store-equals-list', '%s.%s/%s' % (pid, read, cause),
                            dict(store=store, missing=[kstr(k) for k in missing[:5]], unexpected=[kstr(k) for k in extra_k[:5]],
                                 extra=extra))
        for k, nj, j in observed:
            if nj != expected[k]:
                diff = sorted(x for x in set(nj) | set(expected[k]) if nj.get(x) != expected[k].get(x))
                raise Violation('content-preserved', '%s.content/%s' % (pid, read),
                                dict(store=store, key=kstr(k), differing=diff[:6],
                                     got={x: nj.get(x) for x in diff[:3]}, want={x: expected[k].get(x) for x in diff[:3]}))

    def expected_versions(self, store, sid):
        return {k: v for k, v in self.models[store].items() if k[0] == sid}

    def expected_latest(self, store, sid):
        vs = self.expected_versions(store, sid)
        if not vs:
            return None
        best = max(vs, key=lambda k: (-1 if k[1] is None else k[1]))
        return best

    def string_order_latest(self, store, sid, raw):
        """What newest-by-string-comparison of the stored `modified` texts would pick (for signatures)."""
        vs = [(raw.get(k), k) for k in self.expected_versions(store, sid)]
        vs = [(s, k) for s, k in vs if s]
        return max(vs)[1] if vs else None


# --------------------------------------------------------------------------
# fault description helpers
# --------------------------------------------------------------------------

WRITE_FAULTS = [('CRASH', 'write'), ('ENOSPC', 'write'), ('EIO', 'write'), ('EACCES', 'open_w'), ('ENOSPC', 'mkdir'),
                ('EIO', 'stat')]
READ_FAULTS = [('EIO', 'listdir'), ('EIO', 'stat'), ('EIO', 'open_r'), ('EACCES', 'open_r'), ('EACCES', 'listdir'), ('EIO', 'read'),
               ('EIO', 'read'), ('VANISH', 'open_r'), ('VANISH', 'stat')]


def gen_fault(rng, table, max_nth=4):
    kind, callk = rng.choice(table)
    f = {'kind': kind, 'call': callk, 'nth': rng.choice([0, 0, 1, 1, 2, 3][:max_nth + 2]),
         'frac': rng.choice([0.0, 0.01, 0.3, 0.5, 0.9, 0.999]), 'chunk': rng.choice([0, 0, 0, 1, 2])}
    if callk == 'stat' and max_nth >= 4:
        f['nth'] = rng.randrange(0, 20)      # one operation stats many names: reach the later ones too
    return f
