"""C13 - library operations never modify their arguments or existing objects (invariant monitor).

A monitor is wrapped around every public call of a broad seeded operation mix (constructors with nested
arguments, parse, deepcopy, versioning, markings, bundles, factory defaults, stores on the simulated disk,
registration) - including calls that fail on invalid input and calls interrupted by an injected I/O
fault or crash, since exception paths are where an in-place edit followed by a raise hides.
"""
import copy
import json
import os

from . import Profile, COMPONENTS_COMMON
from .. import catalog as C
from .. import common as U
from .. import storeworld as SW
from .. import tsparse
from ..core import Violation, call, Outcome
from ..fingerprint import fingerprint, first_difference, containers
from ..seams import SimCrash

HASH_MD5 = 'd41d8cd98f00b204e9800998ecf8427e'
HASH_SHA256 = 'ceafbfd424be2ca4a5f0402cae090dda2fb0526cf521b60b60077c0f622b285a'

NESTED = {
    'file21': {'type': 'file', 'spec_version': '2.1', 'name': 'foo.exe', 'hashes': {'MD5': HASH_MD5, 'SHA-256': HASH_SHA256},
               'extensions': {'ntfs-ext': {'sid': '1234', 'alternate_data_streams': [{'name': 'second.stream', 'size': 25536}]},
                              'windows-pebinary-ext': {'pe_type': 'exe', 'sections': [{'name': '.text', 'entropy': 7.25}],
                                                       'optional_header': {'magic_hex': '010b'}}}},
    'nettraffic21': {'type': 'network-traffic', 'spec_version': '2.1', 'protocols': ['tcp', 'http'], 'src_ref': C.REF_IPV4,
                     'extensions': {'http-request-ext': {'request_method': 'get', 'request_value': '/download.html',
                                                         'request_header': {'Accept-Encoding': 'gzip,deflate', 'Host': 'www.example.com'}}}},
    'file21_lower': {'type': 'file', 'spec_version': '2.1', 'name': 'bar.exe', 'hashes': {'sha256': HASH_SHA256, 'md5': HASH_MD5},
                     'extensions': {'archive-ext': {'contains_refs': [C.REF_FILE], 'comment': 'c'}}},
    'artifact21': {'type': 'artifact', 'spec_version': '2.1', 'mime_type': 'image/jpeg', 'url': 'https://example.com/a.jpg',
                   'hashes': {'sha-256': HASH_SHA256}},
    'extref21': {'type': 'identity', 'spec_version': '2.1', 'name': 'with refs',
                 'external_references': [{'source_name': 'src', 'url': 'https://example.com/x', 'hashes': {'sha256': HASH_SHA256, 'MD5': HASH_MD5}},
                                         {'source_name': 'capec', 'external_id': 'CAPEC-1'}]},
    'extref20': {'type': 'identity', 'name': 'with refs', 'identity_class': 'individual',
                 'external_references': [{'source_name': 'src', 'url': 'https://example.com/x', 'hashes': {'md5': HASH_MD5}}]},
    'regkey21': {'type': 'windows-registry-key', 'spec_version': '2.1', 'key': 'HKEY_LOCAL_MACHINE\\System\\Foo',
                 'values': [{'name': 'Foo', 'data': 'qwerty', 'data_type': 'REG_SZ'}, {'name': 'Bar', 'data': '42', 'data_type': 'REG_DWORD'}]},
    'email21': {'type': 'email-message', 'spec_version': '2.1', 'is_multipart': True, 'subject': 'hi',
                'additional_header_fields': {'Reply-To': ['a@example.com', 'b@example.com']},
                'body_multipart': [{'content_type': 'text/plain; charset=utf-8', 'content_disposition': 'inline', 'body': 'Cats are funny!'}]},
    'process21': {'type': 'process', 'spec_version': '2.1', 'pid': 314, 'environment_variables': {'PATH': '/bin', 'HOME': '/root'},
                  'extensions': {'windows-process-ext': {'aslr_enabled': True, 'startup_info': {'lpDesktop': 'WinSta0'}}}},
    'observed20': {'type': 'observed-data', 'first_observed': '2015-12-21T19:00:00Z', 'last_observed': '2015-12-21T19:00:00Z',
                   'number_observed': 2,
                   'objects': {'0': {'type': 'file', 'name': 'foo.exe', 'hashes': {'MD5': HASH_MD5},
                                     'extensions': {'ntfs-ext': {'alternate_data_streams': [{'name': 's', 'size': 1}]}},
                                     'parent_directory_ref': '1'},
                               '1': {'type': 'directory', 'path': '/usr/home', 'contains_refs': ['0']},
                               '2': {'type': 'network-traffic', 'protocols': ['tcp'], 'src_ref': '3',
                                     'extensions': {'http-request-ext': {'request_method': 'get', 'request_value': '/',
                                                                         'request_header': {'Host': 'x'}}}},
                               '3': {'type': 'ipv4-addr', 'value': '1.2.3.4'}}},
    'unreg21': {'type': 'x-unreg-thing', 'spec_version': '2.1', 'name': 'thing', 'labels': ['b', 'a'], 'x_list': [3, 1, {'k': [2, 1]}],
                'x_map': {'z': 1, 'a': {'n': [1]}}},
    'unreg20': {'type': 'x-unreg-thing', 'name': 'thing', 'labels': ['b', 'a'], 'x_list': [3, 1, 2]},
    'langcontent21': {'type': 'language-content', 'spec_version': '2.1', 'object_ref': C.REF_CAMPAIGN,
                      'contents': {'de': {'name': 'Bank Angriff', 'description': 'Weitere Informationen'}, 'fr': {'name': 'Attaque'}}},
}

OPS = ['construct', 'parse', 'deepcopy', 'new_version', 'revoke', 'marking', 'bundle', 'factory', 'store_add', 'store_read',
       'save_load', 'setattr', 'register', 'serialize', 'remove_custom', 'dedup', 'env', 'bad_construct', 'filters', 'marking_utils',
       'composite', 'ext_objects', 'navigate']


class C13(Profile):
    pid = 'C13'
    needs_disk = True
    owns_registries = True
    tiers = {'quick': 2400, 'thorough': 200000}
    wall_cap = {'quick': 1200, 'thorough': 6 * 3600}
    probes = ['same_instant_twins_in_one_structure', 'new_version_with_custom_properties', 'navigation_with_caller_filters', 'arg_nested_extension_dict', 'arg_observed_data_objects', 'failing_call_checked', 'fault_interrupted_call_checked',
              'object_shared_by_bundle_and_store', 'deepcopy_disjoint', 'assignment_refused', 'stored_dict_by_reference',
              'factory_list_default', 'registration_args_checked', 'marking_on_pooled_dict', 'new_version_of_stored_object',
              'extensions_dict_of_objects', 'argument_too_deep_to_copy']
    rule = ('plans: 15-50 public calls drawn swarm-style from 18 op kinds over a shared pool of caller-owned dicts/lists and library objects '
            '(objects are re-used across bundles, stores, versioning and marking calls); ~25% of calls are made to fail (invalid values) and '
            'every 5th run injects I/O faults/crashes into store calls; after every call the deep fingerprint of every argument and of every '
            'pooled value, and serialize() of every pooled object, must be unchanged. non-trivial = >=1 call that returned a new object AND '
            '>=1 fingerprint comparison over a pool holding >=1 nested container; distinct = distinct plan digests')
    state_measure = 'distinct (op kind, argument shape, outcome class, fault fired?) tuples'
    assumptions = ['fingerprint.py (own recursive walker) sees everything observable about a value (types, key order, values, datetime precision metadata)']
    components = dict(COMPONENTS_COMMON,
                      real=COMPONENTS_COMMON['real'] + ['stix2.base', 'stix2.properties', 'stix2.versioning', 'stix2.markings', 'stix2.parsing',
                                                        'stix2.environment', 'stix2.datastore.memory', 'stix2.datastore.filesystem', 'tmpfs'],
                      simulated=COMPONENTS_COMMON['simulated'] + ['I/O error injection', 'process crash', 'readdir order', 'file time stamps (disk-owned clock, plan-chosen granularity)'])

    # ------------------------------------------------------------------ generation
    def generate(self, rng, index, tier):
        faults = index % 5 == 4
        kinds = U.swarm_weights(rng, OPS, keep=0.7, must=('construct', 'parse'))
        ops = []
        for n in range(rng.randrange(15, 51)):
            kind = U.weighted(rng, kinds) if n > 2 else rng.choice(['construct', 'parse'])
            op = {'op': kind, 'a': rng.randrange(10 ** 6), 'b': rng.randrange(10 ** 6), 'c': rng.randrange(10 ** 6),
                  'ver': rng.choice(['2.0', '2.1']), 'n': index * 100 + n, 'flag': rng.random() < 0.5,
                  'fail': rng.random() < 0.25, 'ls_key': rng.randrange(100)}
            if kind in ('construct', 'parse', 'bad_construct'):
                if rng.random() < 0.5:
                    op['nested'] = rng.choice(sorted(NESTED))
                else:
                    op['type'] = rng.choice(C.versioned_types(op['ver']))
            if kind in ('store_add', 'save_load', 'store_read') and faults and rng.random() < 0.5:
                op['fault'] = SW.gen_fault(rng, SW.WRITE_FAULTS + SW.READ_FAULTS)
            if kind == 'navigate' and faults and rng.random() < 0.7:
                op['fault'] = SW.gen_fault(rng, SW.READ_FAULTS)
            ops.append(op)
        return {'config': {'m_allow_custom': True, 'fs_allow_custom': True, 'faults': faults}, 'pool': [], 'ops': ops}

    def simplify(self, op):
        out = []
        if op.get('fault'):
            out.append({k: v for k, v in op.items() if k != 'fault'})
        if op.get('fail'):
            out.append(dict(op, fail=False))
        return out

    # ------------------------------------------------------------------ execution
    def execute(self, plan, world):
        import stix2
        self.s = stix2
        sw = SW.StoreWorld(world, dict(plan, pool=[{'kind': 'sdo', 'ver': '2.1', 'type': 'identity', 'id_n': 1, 'versions': [0], 'created_us': 0}]), 'C13')
        self.sw = sw
        self.world = world
        self.pool = []       # caller-owned values and library objects
        self.nreg = 0
        self.stored_ids = set()
        self._cache = []
        self._cache_ids = []
        for i, op in enumerate(plan['ops']):
            world.op_index = i
            world.stat('op:' + op['op'])
            getattr(self, 'op_' + op['op'])(op)
            if len(self.pool) > 30:
                del self.pool[:len(self.pool) - 30]

    # -- the monitor -------------------------------------------------------------
    def _one(self, v):
        if hasattr(v, 'serialize'):
            t = call(v.serialize)
            return fingerprint(v), (t.value if t.ok else 'raised:' + type(t.exc).__name__)
        return fingerprint(v), None

    def snap(self, fresh=False):
        """(fingerprints, serializations) of the pool.  The result of the previous call's after-snapshot is
        reused as this call's before-snapshot; only values pooled since then are computed."""
        if fresh:
            self._cache = [self._one(v) for v in self.pool]
        else:
            cache = getattr(self, '_cache', [])
            ids = getattr(self, '_cache_ids', [])
            if ids != [id(v) for v in self.pool[:len(ids)]] or len(cache) > len(self.pool):
                cache = []
            cache = cache + [self._one(v) for v in self.pool[len(cache):]]
            self._cache = cache
        self._cache_ids = [id(v) for v in self.pool]
        return [c[0] for c in self._cache], [c[1] for c in self._cache]

    def monitored(self, what, fn, *args, **kwargs):
        """Call fn(*args, **kwargs) under the monitor.  Returns Outcome (SimCrash is reported as a failed Outcome)."""
        world = self.world
        fa0 = fingerprint((args, kwargs))
        fps0, txt0 = self.snap()
        crashed = False
        try:
            out = call(fn, *args, **kwargs)
        except SimCrash as e:
            out = Outcome(False, None, e)
            crashed = True
        fa1 = fingerprint((args, kwargs))
        tag = 'crash' if crashed else ('ok' if out.ok else 'raised')
        if fa1 != fa0:
            raise Violation('arguments-unchanged', 'C13.argument-mutated/%s/%s' % (what, tag), first_difference(fa0, fa1))
        fps1, txt1 = self.snap(fresh=True)
        for i, (a, b) in enumerate(zip(fps0, fps1)):
            if a != b:
                raise Violation('existing-objects-unchanged', 'C13.pooled-value-mutated/%s/%s' % (what, tag),
                                dict(pool_index=i, diff=first_difference(a, b)))
        for i, (a, b) in enumerate(zip(txt0, txt1)):
            if a != b:
                raise Violation('existing-objects-unchanged', 'C13.pooled-serialization-changed/%s/%s' % (what, tag),
                                dict(pool_index=i, before=(a or '')[:200], after=(b or '')[:200]))
        if any(isinstance(v, (dict, list)) or hasattr(v, '_inner') for v in self.pool):
            world.compared()
        if not out.ok:
            world.probe('failing_call_checked')
        world.state(what, tag, type(out.exc).__name__ if out.exc is not None else '')
        world.log(op=what, outcome=tag if out.ok or crashed else 'raised:' + type(out.exc).__name__)
        return out

    def keep(self, v):
        if v is not None:
            self.pool.append(v)
            self.world.changed()

    def pick(self, n, pred=None):
        cands = [v for v in self.pool if pred is None or pred(v)]
        return cands[n % len(cands)] if cands else None

    def is_obj(self, v):
        return hasattr(v, '_inner')

    def versionable(self, v):
        return (self.is_obj(v) or isinstance(v, dict)) and 'modified' in v and 'created' in v and v.get('type') not in ('bundle',)

    # -- building caller-owned arguments -------------------------------------------
    def make_dict(self, op):
        if op.get('nested'):
            d = C._copy(NESTED[op['nested']])
            if 'id' not in d and d['type'] not in ('file', 'network-traffic', 'windows-registry-key', 'email-message', 'process') \
                    or d['type'] in ('observed-data', 'language-content', 'x-unreg-thing', 'identity'):
                d['id'] = C.mkid(d['type'], op['n'])
                d['created'] = d['modified'] = '2017-01-01T00:00:00.000Z'
            if 'extensions' in d:
                self.world.probe('arg_nested_extension_dict')
            if 'objects' in d:
                self.world.probe('arg_observed_data_objects')
            return d
        ver = op['ver']
        typ = op.get('type') or 'identity'
        if typ not in C.versioned_types(ver):
            typ = 'identity'
        minimal, rich = C.template(ver, typ)[:2]
        common = C.COMMON_OPT_20 if ver == '2.0' else C.COMMON_OPT_21
        d = C.build(ver, typ, op['n'], 1500000000000000 + op['n'], 1500000000000000 + op['n'] + 1000, tuple(rich), tuple(common))
        d['granular_markings'] = [{'marking_ref': C.TLP['amber'], 'selectors': ['type', 'created']}]
        return d

    def corrupt(self, d, op):
        """Make the call fail (or at least take an error path) without touching the nesting."""
        k = op['c'] % 6
        d = dict(d)
        if k == 5:
            # content nested too deeply for a defensive copy to succeed (600 levels): the call fails - and the copies that
            # protect the caller's containers must not be what was lost on that path
            deep = 1
            for _ in range(600):
                deep = [deep]
            if isinstance(d.get('objects'), dict) and d['objects']:
                objs = dict(d['objects'])
                last = sorted(objs)[-1]
                objs[last] = dict(objs[last], x_deep=deep)
                d['objects'] = objs
            elif isinstance(d.get('extensions'), dict) and d['extensions']:
                exts = dict(d['extensions'])
                last = sorted(exts)[-1]
                exts[last] = dict(exts[last], x_deep=deep)
                d['extensions'] = exts
            else:
                d['x_deep'] = deep
            self.world.probe('argument_too_deep_to_copy')
        elif k == 0:
            d['id'] = 'not-an-id'
        elif k == 1:
            d['x_unknown_property'] = {'nested': [1, 2, 3]}
        elif k == 2:
            d['created'] = 'yesterday'
        elif k == 3 and 'extensions' in d:
            d['extensions'] = dict(d['extensions'], **{'x-unknown-ext': {'a': [1]}})
        else:
            d['type'] = 'x-not-registered'
        return d

    # -- ops ---------------------------------------------------------------------------
    def op_construct(self, op):
        s = self.s
        d = self.make_dict(op)
        if op.get('fail'):
            d = self.corrupt(d, op)
        self.keep(d)
        ver = '2.1' if d.get('spec_version') == '2.1' else '2.0'
        cls = s.registry.class_for_type(d['type'], ver)
        if cls is None:
            out = self.monitored('parse', s.parse, d, allow_custom=op['flag'])
        else:
            kwargs = dict(d)   # shallow: nested containers stay caller-owned and pooled through d
            out = self.monitored('construct', lambda **kw: cls(**kw), allow_custom=op['flag'], **kwargs)
        if out.ok and not (op.get('fail') and op['c'] % 6 == 5):
            # (an object that holds 600 levels of nesting is not pooled: copy.deepcopy of it meets the interpreter's own limit)
            self.keep(out.value)

    op_bad_construct = lambda self, op: self.op_construct(dict(op, fail=True))

    def op_parse(self, op):
        s = self.s
        d = self.make_dict(op)
        if op.get('fail'):
            d = self.corrupt(d, op)
        self.keep(d)
        which = op['a'] % 4
        if which == 0:
            out = self.monitored('parse', s.parse, d, allow_custom=op['flag'])
        elif which == 1:
            out = self.monitored('parse_text', s.parse, json.dumps(d), allow_custom=op['flag'])
        elif which == 2 and d['type'] in ('file', 'network-traffic', 'windows-registry-key', 'email-message', 'process'):
            refs = {'0': 'file'}
            self.keep(refs)
            out = self.monitored('parse_observable', s.parse_observable, d, refs, allow_custom=op['flag'])
        else:
            b = {'type': 'bundle', 'id': C.mkid('bundle', op['n']), 'objects': [d]}
            if 'spec_version' not in d:
                b['spec_version'] = '2.0'
            self.keep(b)
            out = self.monitored('parse_bundle', s.parse, b, allow_custom=op['flag'])
        if out.ok and not (op.get('fail') and op['c'] % 6 == 5):
            self.keep(out.value)

    def op_deepcopy(self, op):
        v = self.pick(op['a'], self.is_obj)
        if v is None:
            return
        if op['c'] % 4 == 0:
            # one structure holding two DIFFERENT versions of one id minted under a standing clock (same modified instant,
            # different content), as a bundle or a plain list: the copy holds two different objects as well
            base = self.pick(op['b'], self.versionable)
            if base is not None and self.is_obj(base):
                self.world.clock.set(1800000000000000 + op['n'] * 1000, mode='fixed')
                a = call(self.s.versioning.new_version, base, labels=['twin-a'])
                b = call(self.s.versioning.new_version, base, labels=['twin-b'])
                if a.ok and b.ok:
                    V = self.s.v21 if 'spec_version' in U.to_json(base) else self.s.v20
                    bun = call(lambda: V.Bundle(a.value, b.value, allow_custom=True))
                    v = bun.value if (bun.ok and op['c'] % 8 == 0) else [a.value, b.value]
                    self.world.probe('same_instant_twins_in_one_structure')
                    if isinstance(v, list):
                        out = self.monitored('deepcopy', copy.deepcopy, v)
                        if not out.ok or out.value != v or [U.to_json(x) for x in out.value] != [U.to_json(x) for x in v]:
                            raise Violation('deepcopy', 'C13.deepcopy-not-equal', dict(type='list of two versions with one (id, modified)'))
                        return
        out = self.monitored('deepcopy', copy.deepcopy, v)
        if not out.ok and isinstance(out.exc, RecursionError) and 'too-deep' in repr(fingerprint(v)):
            # the object holds content nested beyond what copy.deepcopy can walk under the interpreter's recursion limit
            self.world.stat('deepcopy_of_too_deep_content')
            return
        if not out.ok:
            raise Violation('deepcopy', 'C13.deepcopy-raised/%s' % type(out.exc).__name__, dict(exc=repr(out.exc)[:300], type=v.get('type')))
        cp = out.value
        if cp != v or U.to_json(cp) != U.to_json(v):
            raise Violation('deepcopy', 'C13.deepcopy-not-equal', dict(type=v.get('type')))
        shared = containers(cp) & containers(v)
        if shared:
            raise Violation('deepcopy', 'C13.deepcopy-shares-state', dict(type=v.get('type'), shared=len(shared)))
        self.world.probe('deepcopy_disjoint')
        self.keep(cp)

    def op_new_version(self, op):
        s = self.s
        v = self.pick(op['a'], self.versionable)
        if v is None:
            return
        changes = {'labels': ['l-%d' % op['n'], 'x'], 'external_references': [{'source_name': 's', 'external_id': 'e'}]}
        if op.get('fail'):
            changes = {'id': 'nope', 'labels': ['a']} if op['c'] % 2 else {'modified': '2000-01-01T00:00:00Z', 'labels': ['a']}
        self.keep(changes)
        self.world.clock.set(1600000000000000 + op['n'] * 1000)
        if op['c'] % 4 == 1 and not op.get('fail'):
            # part of the request travels in a caller-held custom_properties dictionary: names the object already carries
            # (custom and specification-defined) next to new ones; the same dictionary is used again for the next request
            cp = getattr(self, '_cp', None)
            if cp is None or op['c'] % 8 == 1:
                have = [k for k in U.to_json(v) if k.startswith('x_')][:1]
                cp = dict({k: 'again' for k in have}, x_rating='high', x_tags=['c', 'd'])
                if op['c'] % 3 == 0:
                    cp['labels'] = ['from-custom-properties']
                self._cp = cp
                self.keep(cp)
            self.world.probe('new_version_with_custom_properties')
            first = self.monitored('new_version', s.versioning.new_version, v, custom_properties=cp, allow_custom=True)
            if first.ok:
                self.keep(first.value)
                self.monitored('new_version', s.versioning.new_version, first.value, custom_properties=cp, allow_custom=True, **changes)
            return
        out = self.monitored('new_version', s.versioning.new_version, v, **changes)
        if out.ok:
            self.keep(out.value)

    def op_revoke(self, op):
        v = self.pick(op['a'], self.versionable)
        if v is None:
            return
        self.world.clock.set(1600000000000000 + op['n'] * 1000)
        out = self.monitored('revoke', self.s.versioning.revoke, v)
        if out.ok:
            self.keep(out.value)

    def op_marking(self, op):
        s = self.s
        v = self.pick(op['a'], self.versionable)
        if v is None:
            return
        if isinstance(v, dict):
            self.world.probe('marking_on_pooled_dict')
        sels = ['type'] if op['c'] % 3 else ['labels', 'created']
        if op.get('fail'):
            sels = ['no_such_property']
        marks = [C.MARKING_IDS[op['b'] % len(C.MARKING_IDS)], C.MARKING_IDS[(op['b'] + 1) % len(C.MARKING_IDS)]]
        self.keep(sels)
        self.keep(marks)
        self.world.clock.set(1600000000000000 + op['n'] * 1000)
        fn = [s.markings.add_markings, s.markings.remove_markings, s.markings.set_markings][op['a'] % 3]
        name = ['add_markings', 'remove_markings', 'set_markings'][op['a'] % 3]
        if op['flag']:
            out = self.monitored(name, fn, v, marks, sels)
        else:
            out = self.monitored(name, fn, v, marks, None)
        if out.ok and out.value is not v:
            self.keep(out.value)
        if op['c'] % 4 == 0:
            self.monitored('clear_markings', s.markings.clear_markings, v, sels if op['flag'] else None)
        self.monitored('get_markings', s.markings.get_markings, v, sels, True, True)
        self.monitored('is_marked', s.markings.is_marked, v, marks[:1], sels, True, False)

    def op_bundle(self, op):
        s = self.s
        members = [v for v in self.pool if (self.is_obj(v) or isinstance(v, dict)) and v.get('type') not in (None, 'bundle') and 'id' in v]
        if not members:
            return
        pick = [members[(op['a'] + i) % len(members)] for i in range(1 + op['b'] % 3)]
        v21 = any('spec_version' in m for m in pick)
        if not v21 and any(self.is_obj(m) and isinstance(m, s.v21._STIXBase21) for m in pick):
            v21 = True
        if not v21:
            pick = [m for m in pick if 'spec_version' not in m]
        B = s.v21.Bundle if v21 else s.v20.Bundle
        self.keep(pick)
        shape = op['c'] % 4
        if shape == 0 and len(pick) >= 2:
            head, rest = pick[:-1], pick[-1]
            self.keep(head)
            out = self.monitored('bundle', lambda *a, **k: B(*a, **k), head, rest, allow_custom=True)
        elif shape == 1 and len(pick) >= 2:
            head, rest = pick[:1], pick[1:]
            self.keep(head)
            self.keep(rest)
            out = self.monitored('bundle', lambda *a, **k: B(*a, **k), head, objects=rest, allow_custom=True)
        elif op['flag']:
            out = self.monitored('bundle', lambda *a, **k: B(*a, **k), *pick, allow_custom=True)
        else:
            out = self.monitored('bundle', lambda **k: B(**k), objects=pick, allow_custom=True)
        if out.ok:
            self.keep(out.value)
            if any(getattr(self, 'stored_ids', set()) & {m.get('id')} for m in pick):
                self.world.probe('object_shared_by_bundle_and_store')

    def op_factory(self, op):
        s = self.s
        ext = [{'source_name': 'factory', 'external_id': 'F-%d' % op['n']}]
        omr = [C.TLP['green']]
        self.keep(ext)
        self.keep(omr)
        fo = self.monitored('factory_ctor', s.ObjectFactory, created_by_ref=C.IDENT, external_references=ext, object_marking_refs=omr,
                            list_append=op['flag'])
        if not fo.ok:
            return
        fac = fo.value
        more = [{'source_name': 'call', 'external_id': 'C-1'}]
        self.keep(more)
        self.world.probe('factory_list_default')
        cls = s.v21.Identity if op['ver'] == '2.1' else s.v20.Identity
        kw = dict(name='made', external_references=more)
        if op['ver'] == '2.0' or op.get('fail'):
            kw['identity_class'] = 'individual' if not op.get('fail') else ['not', 'a', 'string', {'x': 1}]
        if op['c'] % 3 == 0:
            kw['object_marking_refs'] = C.TLP['red']
        out = self.monitored('factory_create', fac.create, cls, **kw)
        out2 = self.monitored('factory_create', fac.create, cls, **kw)
        if out.ok:
            self.keep(out.value)
            if out2.ok and fingerprint(U.to_json(out.value).get('external_references')) != fingerprint(U.to_json(out2.value).get('external_references')):
                raise Violation('existing-objects-unchanged', 'C13.factory-defaults-drift', dict(first=U.to_json(out.value).get('external_references'),
                                                                                               second=U.to_json(out2.value).get('external_references')))

    def store_target(self, op):
        return self.sw.M if op['b'] % 2 else self.sw.F

    def op_store_add(self, op):
        sw = self.sw
        cands = [v for v in self.pool if (self.is_obj(v) or isinstance(v, dict)) and v.get('type') not in (None,) and 'id' in v]
        if not cands:
            return
        arg = cands[op['a'] % len(cands)]
        if op['c'] % 3 == 0:
            arg = [cands[(op['a'] + i) % len(cands)] for i in range(1 + op['c'] % 3)]
            self.keep(arg)
        S = self.store_target(op)
        sw.disk.begin_op(op.get('ls_key', 0), op.get('fault') if S is sw.F else None)
        sw.disk.mark_op_writes()
        out = self.monitored('store_add', S.add, arg)
        fired = sw.disk.end_op()
        if fired:
            self.world.probe('fault_interrupted_call_checked')
        self.stored_ids = getattr(self, 'stored_ids', set())
        for a in (arg if isinstance(arg, list) else [arg]):
            self.stored_ids.add(a.get('id'))
            if S is sw.M and type(a) is dict and a.get('type', '').startswith('x-'):
                self.world.probe('stored_dict_by_reference')
        if isinstance(out.exc, SimCrash):
            sw.make_memory()
            sw.make_fs()

    def op_store_read(self, op):
        sw = self.sw
        S = self.store_target(op)
        ids = sorted(x for x in getattr(self, 'stored_ids', set()) if x)
        sw.disk.begin_op(op.get('ls_key', 0), op.get('fault') if S is sw.F else None)
        if ids and op['c'] % 2:
            out = self.monitored('store_get', S.get, ids[op['a'] % len(ids)])
            got = [out.value] if out.ok and out.value is not None else []
        else:
            flt = [self.s.Filter('type', '!=', 'bundle')]
            self.keep(flt)
            out = self.monitored('store_query', S.query, flt)
            got = list(out.value)[:3] if out.ok else []
        if sw.disk.end_op():
            self.world.probe('fault_interrupted_call_checked')
        for g in got:
            if not any(g is p for p in self.pool):
                self.keep(g)
            if self.versionable(g) and op['flag']:
                self.world.clock.set(1700000000000000 + op['n'] * 1000)
                o2 = self.monitored('new_version', self.s.versioning.new_version, g, labels=['from-store'])
                self.world.probe('new_version_of_stored_object')
                if o2.ok:
                    self.keep(o2.value)

    def op_save_load(self, op):
        sw = self.sw
        path = os.path.join(sw.savedir, 's%d.json' % op['n'])
        sw.disk.begin_op(op.get('ls_key', 0), op.get('fault'))
        sw.disk.mark_op_writes()
        out = self.monitored('save_to_file', sw.M.save_to_file, path)
        if out.ok:
            M2 = self.s.MemoryStore()
            o2 = self.monitored('load_from_file', M2.load_from_file, out.value)
            if o2.ok:
                q = call(M2.query, [])
                if q.ok and q.value:
                    self.keep(q.value[op['a'] % len(q.value)])
        if sw.disk.end_op():
            self.world.probe('fault_interrupted_call_checked')
        if isinstance(out.exc, SimCrash):
            sw.make_memory()
            sw.make_fs()

    def op_setattr(self, op):
        v = self.pick(op['a'], self.is_obj)
        if v is None:
            return
        name = (['name', 'id', 'labels', 'modified', 'type'] + list(v.keys()))[op['b'] % (5 + len(v))]
        which = op['c'] % 4
        if which == 0:
            out = self.monitored('setattr', setattr, v, name, 'changed')
        elif which == 1:
            def setitem(o, k, val):
                o[k] = val
            out = self.monitored('setitem', setitem, v, name, 'changed')
        elif which == 2:
            out = self.monitored('delattr', delattr, v, name)
        else:
            def delitem(o, k):
                del o[k]
            out = self.monitored('delitem', delitem, v, name)
        if out.ok:
            raise Violation('assignment-refused', 'C13.assignment-accepted/%s' % ['setattr', 'setitem', 'delattr', 'delitem'][which],
                            dict(name=name, type=v.get('type')))
        self.world.probe('assignment_refused')

    def op_register(self, op):
        s = self.s
        from stix2.properties import IntegerProperty, ListProperty, StringProperty
        props = [('name', StringProperty(required=True)), ('sizes', ListProperty(IntegerProperty))]
        self.keep(props)
        self.nreg += 1
        tname = 'x-sim-c13-%d' % self.nreg if not op.get('fail') else 'x-sim-widget'
        V = s.v21 if op['ver'] == '2.1' else s.v20

        def reg():
            @V.CustomObject(tname, props)
            class Thing(object):
                pass
            return Thing
        out = self.monitored('register', reg)
        self.world.probe('registration_args_checked')
        if out.ok:
            sizes = [1, 2, 3]
            self.keep(sizes)
            o2 = self.monitored('construct_custom', lambda **kw: out.value(**kw), name='n', sizes=sizes)
            if o2.ok:
                self.keep(o2.value)

    def op_ext_objects(self, op):
        """One caller-held `extensions` dictionary - empty, or holding ready-made extension OBJECTS, or plain dicts - given to
        several constructors in a row, the last of a type registered with extension_name= (which adds its own extension to
        what it was given).  The dictionary and the objects built from it earlier must stay as they were."""
        s = self.s
        from stix2.properties import IntegerProperty, StringProperty
        if not getattr(self, '_ext_types', None):
            pe_id = 'extension-definition--' + C.mkuuid(21, 'c13ext')

            @s.v21.CustomExtension(pe_id, [('rank', IntegerProperty(required=True))])
            class RankExt(object):
                extension_type = 'property-extension'

            @s.v21.CustomObject('x-sim-c13-extobj', [('name', StringProperty(required=True))],
                                extension_name='extension-definition--' + C.mkuuid(22, 'c13ext'))
            class ExtObj(object):
                pass

            @s.v21.CustomObservable('x-sim-c13-extsco', [('name', StringProperty(required=True))], ['name'],
                                    extension_name='extension-definition--' + C.mkuuid(23, 'c13ext'))
            class ExtSco(object):
                pass
            self._ext_types = (pe_id, RankExt, ExtObj, ExtSco)
        pe_id, RankExt, ExtObj, ExtSco = self._ext_types
        shape = op['a'] % 4
        if shape == 0:
            exts = {}
        elif shape == 1:
            exts = {pe_id: RankExt(rank=op['n'] % 7)}
        elif shape == 2:
            exts = {pe_id: {'extension_type': 'property-extension', 'rank': op['n'] % 7}}
        else:
            exts = {pe_id: RankExt(rank=1), 'extension-definition--' + C.mkuuid(24, 'c13ext'): {'extension_type': 'property-extension', 'tags': ['a', ['b']]}}
        self.keep(exts)
        self.world.probe('extensions_dict_of_objects' if shape in (1, 3) else 'extensions_dict_other')
        order = [('identity', lambda **kw: s.v21.Identity(name='n', identity_class='individual', **kw)),
                 ('file', lambda **kw: s.v21.File(name='f', **kw)),
                 ('ext_object', lambda **kw: ExtObj(name='o', **kw)),
                 ('ext_observable', lambda **kw: ExtSco(name='c', **kw))]
        if op['b'] % 3 == 0:
            order.reverse()
        for name, ctor in order:
            if (op['c'] >> len(name)) % 4 == 0 and name in ('identity', 'file'):
                continue
            out = self.monitored('construct_with_extensions/' + name, ctor, extensions=exts, allow_custom=True)
            if out.ok:
                self.keep(out.value)
                if op['flag']:
                    self.world.clock.set(1700000000000000 + op['n'] * 1000)
                    nv = self.monitored('new_version', s.versioning.new_version, out.value, name='n2') if name != 'file' and 'modified' in out.value else None
                    if nv is not None and nv.ok:
                        self.keep(nv.value)

    def op_serialize(self, op):
        v = self.pick(op['a'], self.is_obj)
        if v is None:
            return
        opts = [{}, {'pretty': True}, {'sort_keys': True}, {'include_optional_defaults': True}, {'indent': 2}][op['b'] % 5]
        self.monitored('serialize', v.serialize, **opts)

    def op_remove_custom(self, op):
        v = self.pick(op['a'], lambda x: self.versionable(x))
        if v is None:
            return
        self.world.clock.set(1800000000000000 + op['n'] * 1000)
        out = self.monitored('remove_custom_stix', self.s.versioning.remove_custom_stix, v)
        if out.ok and out.value is not None and out.value is not v:
            self.keep(out.value)

    def op_dedup(self, op):
        vs = [v for v in self.pool if (self.is_obj(v) or isinstance(v, dict)) and 'id' in v]
        if not vs:
            return
        lst = [vs[(op['a'] + i) % len(vs)] for i in range(4)]
        self.keep(lst)
        self.monitored('deduplicate', self.s.utils.deduplicate, lst)

    def op_filters(self, op):
        """Filter / FilterSet / apply_common_filters with caller-owned lists and dict values."""
        s = self.s
        from stix2.datastore.filters import FilterSet, apply_common_filters
        vals = ['malware', 'identity', 'x-unreg-thing']
        self.keep(vals)
        f1 = self.monitored('filter_ctor', s.Filter, 'type', 'in', vals)
        dv = {'source_name': 'capec', 'external_id': 'CAPEC-163'}
        self.keep(dv)
        f2 = self.monitored('filter_ctor', s.Filter, 'external_references', 'contains', dv)
        fl = [x.value for x in (f1, f2) if x.ok]
        self.keep(fl)
        fs = self.monitored('filterset_ctor', FilterSet, fl)
        if fs.ok:
            more = [s.Filter('id', '!=', C.IDENT)]
            self.keep(more)
            self.monitored('filterset_add', fs.value.add, more)
            self.monitored('filterset_remove', fs.value.remove, more)
        objs = [v for v in self.pool if (self.is_obj(v) or isinstance(v, dict)) and 'type' in v][:6]
        self.keep(objs)
        self.monitored('apply_common_filters', lambda o, q: list(apply_common_filters(o, q)), objs, fl)

    def op_marking_utils(self, op):
        """The marking helper functions called directly with caller-owned granular-marking lists."""
        from stix2.markings import utils as mu
        gms = [{'marking_ref': C.TLP['green'], 'selectors': ['description']},
               {'marking_ref': C.TLP['green'], 'selectors': ['name', 'labels']},
               {'lang': 'en', 'selectors': ['name']}]
        if op['flag']:
            gms = gms[:1]
        self.keep(gms)
        e = self.monitored('expand_markings', mu.expand_markings, gms)
        if e.ok:
            self.keep(e.value)
            self.monitored('compress_markings', mu.compress_markings, e.value)
        self.monitored('compress_markings', mu.compress_markings, gms)
        self.monitored('build_granular_marking', mu.build_granular_marking, gms)
        subj = self.pick(op['a'], lambda v: isinstance(v, dict) and 'type' in v and 'modified' in v)
        if subj is not None:
            # a plain-dict subject whose own single-selector granular marking is cleared / set / removed
            d = json.loads(json.dumps(U.to_json(subj)))
            d['granular_markings'] = [{'marking_ref': C.TLP['green'], 'selectors': ['type']},
                                      {'marking_ref': C.TLP['amber'], 'selectors': ['id', 'created']}]
            self.keep(d)
            self.world.clock.set(1900000000000000 + op['n'] * 1000)
            M = self.s.markings
            which = op['c'] % 4
            if which == 0:
                self.monitored('clear_markings', M.clear_markings, d, ['type'])
            elif which == 1:
                self.monitored('set_markings', M.set_markings, d, C.TLP['red'], ['type'])
            elif which == 2:
                self.monitored('remove_markings', M.remove_markings, d, C.TLP['green'], ['type'])
            else:
                self.monitored('add_markings', M.add_markings, d, C.TLP['red'], ['type', 'id'])

    def op_composite(self, op):
        s = self.s
        srcs = [self.sw.M.source, self.sw.F.source]
        self.keep(srcs)
        cds = s.CompositeDataSource()
        self.monitored('add_data_sources', cds.add_data_sources, srcs)
        flt = [s.Filter('type', '!=', 'bundle')]
        self.keep(flt)
        self.monitored('composite_filters_add', cds.filters.add, flt)
        q = [s.Filter('type', '!=', 'x-nothing')]
        self.keep(q)
        self.sw.disk.begin_op(op.get('ls_key', 0))
        out = self.monitored('composite_query', cds.query, q)
        ids = sorted(x for x in getattr(self, 'stored_ids', set()) if x)
        if ids:
            self.monitored('composite_get', cds.get, ids[op['a'] % len(ids)])
            self.monitored('composite_all_versions', cds.all_versions, ids[op['a'] % len(ids)])
        self.sw.disk.end_op()
        if len(cds.filters) != 1 or len(flt) != 1 or len(q) != 1:
            raise Violation('arguments-unchanged', 'C13.composite-filter-set-grew', dict(attached=len(cds.filters), query=len(q)))

    def op_navigate(self, op):
        """relationships / related_to / creator_of with caller-held filter lists (and FilterSet objects as queries), also when
        a look-up half-way through fails with an I/O error: the caller's containers come back as they went in."""
        s = self.s
        sw = self.sw
        objs = [v for v in self.pool if self.is_obj(v) and 'id' in v and v.get('type') not in ('relationship', 'sighting', 'bundle')]
        if len(objs) < 2:
            return
        a, b = objs[op['a'] % len(objs)], objs[op['b'] % len(objs)]
        S = self.store_target(op)
        rel = call(lambda: s.v21.Relationship(a['id'], 'related-to', b['id']))
        if not rel.ok:
            return
        sw.disk.begin_op(op.get('ls_key', 0))
        for x in (a, b, rel.value):
            call(S.add, x)
        sw.disk.end_op()
        flt = [s.Filter('type', '!=', 'x-nothing'), s.Filter('id', '!=', C.IDENT2)]
        self.keep(flt)
        from stix2.datastore.filters import FilterSet
        fs = FilterSet([s.Filter('type', '!=', 'x-none')])
        self.keep(fs)
        which = op['c'] % 5
        sw.disk.begin_op(op.get('ls_key', 0), op.get('fault') if S is sw.F else None)
        if which == 0:
            self.monitored('related_to', S.related_to, a, filters=flt)
        elif which == 1:
            self.monitored('related_to', S.related_to, a, relationship_type='related-to', source_only=True, filters=flt)
        elif which == 2:
            self.monitored('relationships', S.relationships, a, relationship_type='related-to')
            self.monitored('creator_of', S.creator_of, a)
        elif which == 3:
            # the query itself is a FilterSet object the caller goes on using, against a source that has filters of its own
            attach = s.Filter('type', '!=', 'x-attached')
            src = S.source
            call(src.filters.add, attach)
            self.monitored('store_query', src.query, fs)
            self.monitored('store_query', src.query, fs)
            call(src.filters.remove, attach)
        else:
            cds = s.CompositeDataSource()
            call(cds.add_data_sources, [sw.M.source, sw.F.source])
            self.monitored('related_to', cds.related_to, a, filters=flt)
        if sw.disk.end_op():
            self.world.probe('fault_interrupted_call_checked')
        if len(flt) != 2 or len(fs) != 1:
            raise Violation('arguments-unchanged', 'C13.caller-filters-changed/navigate', dict(filters=len(flt), filterset=len(fs)))
        self.world.probe('navigation_with_caller_filters')

    def op_env(self, op):
        s = self.s
        env = s.Environment(factory=s.ObjectFactory(created_by_ref=C.IDENT), store=self.sw.M)
        refs = [{'source_name': 'env', 'external_id': 'E-1'}]
        self.keep(refs)
        cls = s.v21.Identity
        out = self.monitored('env_create', env.create, cls, name='e', external_references=refs)
        if out.ok:
            self.keep(out.value)
            self.monitored('env_add', env.add, out.value)
            self.monitored('env_creator_of', env.creator_of, out.value)
            self.monitored('env_relationships', env.relationships, out.value)


PROFILE = C13()
