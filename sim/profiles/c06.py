"""C06 - STIX 2.1 observable ids are deterministic and specification-exact (engine `envmatrix`).

The simulated nondeterminism is the environment an id is minted in: the interpreter process and its
PYTHONHASHSEED (runs 4k..4k+3 hold the SAME items and execute under the four hash-seed classes; the
driver compares their id tables), the uuid4 stream, the wall clock, argument / dictionary order and the
construction route.  The exactness oracle (independent RFC 8785 writer + SHA-1 UUIDv5) rides along.
"""
import copy
import datetime as _dt
import json
import random

from . import Profile, COMPONENTS_COMMON
from .. import catalog as C
from .. import common as U
from .. import jcs
from .. import tsparse
from ..core import Violation, call

NAMESPACE = '00abedb4-aa42-466c-9c01-fed23315a9b7'
PREF = ['MD5', 'SHA-1', 'SHA-256', 'SHA-512']
HASHES = {
    'MD5': 'd41d8cd98f00b204e9800998ecf8427e', 'SHA-1': 'da39a3ee5e6b4b0d3255bfef95601890afd80709',
    'SHA-256': 'e3b0c44298fc1c149afbf4c8996fb92427ae41e4649b934ca495991b7852b855',
    'SHA-512': 'cf83e1357eefb8bdf1542850d66d8007d620e4050b5715dc83f4a921d36ce9ce47d0d13c5d85f2b0ff8318d2877eec2f63b931bd47417a81a538327af927da3e',
    'SHA3-256': 'a7ffc6f8bf1ed76651c14756a061d662f580ff4de43b49fa82d80a4b80f8434a',
    'SSDEEP': '3:AXGBicFlgVNhBGcL6wCrFQEv:AXGHsNhxLsr2C',
    'SHA3-512': 'a69f73cca23a9ac5c8b567dc185a756e97c982164fe25859e0d1dcc1475c80a615b2123af1f5f94c11e3e9402c3ac558f500199d95b6d3e301758586281dcd26',
    'TLSH': '6FF02BEF718027B0160B4391212923ED7F1A463D563B1549B86CF62973B197AD2731F8',
}
STR = ['a', 'foo.exe', 'tab\there', 'quote"s', 'back\\slash', 'line\nfeed', 'cr\rret', 'bell\u0007', 'nul\u0000x', 'del\u007f', 'é', 'ß→∑',
       '\U0001F600 astral', '\ud7ff\ue000', 'solidus/', ' lead', 'trail ', '', '0', 'null', '<>&', '\u2028\u2029', 'x' * 200]
ROUTES = ['kwargs', 'kwargs_reversed', 'kwargs_shuffled', 'parse_dict_shuffled', 'parse_text', 'reserialize_drop_id', 'deepcopy', 'bundle_member',
          'parse_observable', 'memory_store']
# frozen per-type lists of id-contributing properties (STIX 2.1, section "ID Contributing Properties" of each SCO)
CONTRIB = {t: v[2] for t, v in C.SCO21.items()}
CONTRIB['x-sim-obs-a'] = ['alpha', 'beta', 'flag']
CONTRIB['x-sim-obs-b'] = ['name', 'meta']
CONTRIB['x-sim-obs-c'] = ['seen_ms', 'seen_any', 'label']
CONTRIB['x-sim-obs-d'] = ['channel', 'enabled', 'label']        # channel and enabled are declared with default= (7, False)
CONTRIB['x-sim-obs-e'] = ['name', 'extensions']                 # 'extensions' is not in the type's own property list: the decorator adds it
OBS_D_DEFAULTS = {'channel': 7, 'enabled': False}
TS_POOL = ['2016-01-01T00:00:00Z', '2016-06-19T14:20:40.5Z', '2038-01-19T03:14:08.000001Z', '1970-01-01T00:00:00Z', '2016-01-01T00:00:00.123Z']
TS_POOL_MS = [t for t in TS_POOL if t != '2038-01-19T03:14:08.000001Z']
TYPES = sorted(CONTRIB)


class _SimDST(_dt.tzinfo):
    """ONE tzinfo object whose UTC offset depends on the date (a zone with daylight saving time): +02:00 from April to
    September, +01:00 otherwise - like zoneinfo / dateutil zones, unlike pytz's per-offset instances."""

    def utcoffset(self, d):
        return _dt.timedelta(hours=2 if 4 <= d.month <= 9 else 1)

    def dst(self, d):
        return _dt.timedelta(hours=1 if 4 <= d.month <= 9 else 0)

    def tzname(self, d):
        return 'SIM'


SIM_DST = _SimDST()


def as_local_datetime(text):
    """The instant `text` names, as an aware datetime in the SIM_DST zone."""
    from .. import tsparse
    utc = _dt.datetime(1970, 1, 1) + _dt.timedelta(microseconds=tsparse.us_of(text))
    local = utc + _dt.timedelta(hours=2 if 4 <= utc.month <= 9 else 1)
    if (4 <= local.month <= 9) != (4 <= utc.month <= 9):
        return None         # within hours of the switch: the wall-clock reading would be ambiguous
    return local.replace(tzinfo=SIM_DST)


def pick_str(rng):
    return rng.choice(STR) + (str(rng.randrange(100)) if rng.random() < 0.5 else '')


NONPREF = ['SHA3-256', 'SSDEEP', 'SHA3-512', 'TLSH']


# algorithms the library recognises but the 2.1 hash vocabulary does not list: custom content, kept under the CALLER's spelling
NONVOCAB = {'SHA-384': (96, ['SHA-384', 'sha384', 'SHA384', 'sha-384']), 'SHA-224': (56, ['SHA-224', 'sha224', 'Sha-224']),
            'RIPEMD-160': (40, ['RIPEMD-160', 'ripemd160', 'ripemd-160']), 'WHIRLPOOL': (128, ['WHIRLPOOL', 'whirlpool', 'Whirlpool'])}


def gen_custom_hashes(rng):
    out = {}
    for a in rng.sample(sorted(NONVOCAB), rng.randrange(1, 3)):
        n, spellings = NONVOCAB[a]
        out[rng.choice(spellings)] = ''.join(rng.choice('0123456789abcdef') for _ in range(4)) * (n // 4)
    return out


def gen_hashes(rng):
    r = rng.random()
    if r < 0.15:
        algs = [rng.choice(NONPREF)]      # only one non-preferred hash: "else first" is unambiguous
    elif r < 0.3:
        # several non-preferred hashes: "first" = first in the order given; the harness never reorders this dictionary
        algs = rng.sample(NONPREF, rng.randrange(2, 5))
    else:
        algs = rng.sample(sorted(HASHES), rng.randrange(1, 5))
    return {a: HASHES[a] for a in algs}


DISTURBANCES = ['new_version', 'new_version_dict', 'revoke', 'illegal_new_version', 'marking', 'deepcopy', 'serialize', 'store', 'bundle',
                'remove_custom', 'equality', 'refused_in_id_generation', 'refused_in_id_generation']


def gen_nested_hashes(rng):
    """A hashes dictionary for use INSIDE a contributing value (an extension, a dictionary): it contributes in full,
    the one-hash rule is for the observable's own toplevel `hashes` only."""
    return {a: HASHES[a] for a in rng.sample(sorted(HASHES), rng.randrange(2, 4))}


def gen_item(rng, n):
    """(type, contributing values, non-contributing values) - plain JSON, canonical spellings."""
    t = rng.choice(TYPES)
    c, nc = {}, {}
    ref = lambda typ: C.mkid(typ, 5000 + rng.randrange(50), 'c06')
    ts = lambda: rng.choice(TS_POOL)
    some = lambda: rng.random() < 0.6
    if t == 'artifact':
        if some():
            c['hashes'] = gen_hashes(rng)
        if rng.random() < 0.5:
            c['payload_bin'] = rng.choice(['VBORw0KGgoAAAANSUhEUgAAADI==', 'aGVsbG8=', 'AA=='])
            nc['mime_type'] = 'image/jpeg'
        else:
            nc['url'] = 'https://example.com/a.bin'
            c.setdefault('hashes', gen_hashes(rng))
    elif t == 'autonomous-system':
        c['number'] = rng.choice([0, 1, 15139, 2 ** 31 - 1, 2 ** 53])
        if some():
            nc['name'] = pick_str(rng)
    elif t == 'directory':
        c['path'] = rng.choice(['/usr/home', 'C:\\Windows\\System32', pick_str(rng) or '/'])
        if some():
            nc['path_enc'] = 'cGF0aF9lbmM'
    elif t in ('domain-name', 'ipv4-addr', 'ipv6-addr', 'mac-addr', 'url', 'email-addr'):
        c['value'] = {'domain-name': 'example%d.com', 'ipv4-addr': '198.51.100.%d', 'ipv6-addr': '2001:db8::%d', 'mac-addr': 'd2:fb:49:24:37:%02d',
                      'url': 'https://example.com/%d?q=é', 'email-addr': 'john%d@example.com'}[t] % rng.randrange(90)
        if t == 'email-addr' and some():
            nc['display_name'] = pick_str(rng)
    elif t == 'email-message':
        nc['is_multipart'] = False
        for k, v in (('from_ref', ref('email-addr')), ('subject', rng.choice([pick_str(rng), pick_str(rng), ''])), ('body', pick_str(rng))):
            if some():
                c[k] = v
        if some():
            nc['date'] = ts()
    elif t == 'file':
        for k, v in (('hashes', gen_hashes(rng)), ('name', pick_str(rng) or 'f'), ('parent_directory_ref', ref('directory'))):
            if some():
                c[k] = v
        if rng.random() < 0.15:
            # an unregistered property extension: its content is kept as given and contributes as given
            c['extensions'] = {'extension-definition--' + C.mkuuid(rng.randrange(3), 'c06ext'): {
                'extension_type': 'property-extension', 'scores': rng.sample([1.0, 10.0, 1e-06, 3.5, 1e22, 42], 3), 'label': pick_str(rng) or 'l'}}
            if rng.random() < 0.5:
                next(iter(c['extensions'].values()))['hashes'] = gen_nested_hashes(rng)
            if rng.random() < 0.5:
                # member names whose order differs between code points and UTF-16 code units (RFC 8785 sorts by the latter):
                # a supplementary-plane character against a BMP character at or above U+E000, at the first difference
                names = ['\U0001f600', '\uff21', 'x_\uf9b5', 'x_\U00020bb7', '\ue000', '\U00010000', '\ud7ff', 'é', 'z', 'x_', '\uffff~', '\U0010ffff~']
                next(iter(c['extensions'].values()))['names'] = {k: i for i, k in enumerate(rng.sample(names, rng.randrange(2, 7)))}
        elif rng.random() < 0.4:
            c['extensions'] = {'ntfs-ext': {'sid': pick_str(rng) or 's', 'alternate_data_streams': [{'name': 'second.stream', 'size': rng.randrange(10 ** 6)}]}}
            if rng.random() < 0.5:
                c['extensions']['ntfs-ext']['alternate_data_streams'][0]['hashes'] = gen_nested_hashes(rng)
            if rng.random() < 0.5:
                c['extensions']['windows-pebinary-ext'] = {'pe_type': 'exe', 'sections': [{'name': '.text', 'entropy': rng.choice([7.25, 1e-7, 1.2345678901234568e+20, 0.1, 100.0, 6.02e23])}]}
                if rng.random() < 0.5:
                    c['extensions']['windows-pebinary-ext']['sections'][0]['hashes'] = gen_nested_hashes(rng)
                if rng.random() < 0.3:
                    c['extensions']['windows-pebinary-ext']['optional_header'] = {'magic_hex': '010b', 'hashes': gen_nested_hashes(rng)}
        if some():
            nc['size'] = rng.randrange(10 ** 9)
        if 'hashes' not in c and 'name' not in c:
            c['name'] = 'f%d.bin' % rng.randrange(100)
    elif t == 'mutex':
        c['name'] = pick_str(rng) or 'm'
    elif t == 'network-traffic':
        c['protocols'] = rng.choice([['tcp'], ['ipv4', 'tcp', 'http'], ['udp']])
        c['src_ref'] = ref('ipv4-addr')
        for k, v in (('start', ts()), ('dst_ref', ref('ipv4-addr')), ('src_port', rng.randrange(65536)), ('dst_port', rng.randrange(65536))):
            if some():
                c[k] = v
        if rng.random() < 0.3:
            c['extensions'] = {'http-request-ext': {'request_method': 'get', 'request_value': '/d.html', 'request_header': {'Accept-Encoding': 'gzip', 'Host': 'é.example'}}}
        if some():
            nc['src_byte_count'] = rng.randrange(10 ** 6)
    elif t == 'process':
        nc['pid'] = rng.randrange(65536)
        if some():
            nc['command_line'] = pick_str(rng)
    elif t == 'software':
        c['name'] = pick_str(rng) or 'sw'
        for k, v in (('cpe', 'cpe:2.3:a:microsoft:word:2000:*:*:*:*:*:*:*'), ('vendor', pick_str(rng)), ('version', pick_str(rng)), ('swid', 'swid-1')):
            if some():
                c[k] = v
    elif t == 'user-account':
        for k, v in (('account_type', 'unix'), ('user_id', pick_str(rng)), ('account_login', pick_str(rng))):
            if some():
                c[k] = v
        nc['display_name'] = pick_str(rng)
    elif t == 'windows-registry-key':
        if some():
            c['key'] = 'HKEY_LOCAL_MACHINE\\System\\Foo\\' + (pick_str(rng) or 'k')
        if some() or not c:
            c['values'] = [{'name': pick_str(rng) or 'n', 'data': 'qwerty', 'data_type': 'REG_SZ'} for _ in range(rng.randrange(1, 3))]
        if some():
            nc['number_of_subkeys'] = rng.randrange(100)
    elif t == 'x509-certificate':
        if some():
            c['hashes'] = gen_hashes(rng)
        if some() or not c:
            c['serial_number'] = '36:f7:d4:32:f4:ab:70:ea:%02d' % rng.randrange(99)
        nc['issuer'] = pick_str(rng)
    elif t == 'x-sim-obs-c':
        # the same instants as network-traffic.start etc., but under other precision settings (other canonical spelling)
        if some():
            c['seen_ms'] = rng.choice(TS_POOL_MS)
        if some():
            c['seen_any'] = rng.choice(TS_POOL)
        if some() or not c:
            c['label'] = pick_str(rng) or 'l'
        nc['note'] = pick_str(rng)
    elif t == 'x-sim-obs-d':
        # contributing properties declared with default=: given explicitly AT the default value, given otherwise, or left to the
        # library to fill in - in every case the property is present on the object and contributes its value
        for k, vals in (('channel', [7, 7, 0, 8]), ('enabled', [False, False, True])):
            r = rng.random()
            if r < 0.6:
                c[k] = rng.choice(vals)
        if some():
            c['label'] = pick_str(rng) or 'l'
        nc['note'] = pick_str(rng)
    elif t == 'x-sim-obs-e':
        # a contributing property that every observable gets from the decorator (extensions), next to one of the type's own
        if some():
            c['name'] = rng.choice(['n1', 'n2', pick_str(rng) or 'n'])
        if some() or not c:
            c['extensions'] = {'extension-definition--' + C.mkuuid(rng.randrange(2), 'c06ext'): {
                'extension_type': 'property-extension', 'rank': rng.choice([1, 2, 3]), 'label': rng.choice(['l', 'm'])}}
        nc['note'] = pick_str(rng)
    elif t == 'x-sim-obs-a':
        if some():
            c['alpha'] = rng.choice([pick_str(rng), pick_str(rng), ''])
        if some():
            c['beta'] = rng.choice([0, -1, 42, 2 ** 40])
        if rng.random() < 0.4:
            c['flag'] = rng.choice([False, False, True])
        nc['gamma'] = pick_str(rng)
    else:
        c['name'] = pick_str(rng) or 'b'
        if some():
            c['meta'] = {'k1': pick_str(rng), 'zz': 'v', 'Aa': 'w', 'a_b': 'x', 'a-b': 'é'}
            if rng.random() < 0.5:
                # values a dictionary property keeps as they are: numbers directly inside arrays, nested arrays, booleans, integral floats
                c['meta']['nums'] = rng.sample([1.0, 2.0, 0.5, 1e-05, 1e16, 1e21, -0.0, 100, 2 ** 53, 7.25, 1.5e-7, 123456789.125], rng.randrange(1, 5))
                c['meta']['grid'] = [[1.0, 2], [True, 'x'], []]
            if rng.random() < 0.3:
                c['meta']['hashes'] = gen_nested_hashes(rng)
        nc['note'] = pick_str(rng)
    # an empty string is a present value (it contributes as ""), except where the type refuses it
    c = {k: v for k, v in c.items() if (v != '' or (t, k) in (('email-message', 'subject'), ('email-message', 'body'), ('x-sim-obs-a', 'alpha'),
                                                              ('software', 'vendor'), ('software', 'version')))
         and v != [] and v != {}}
    item = {'type': t, 'c': c, 'nc': nc}
    if t in ('file', 'artifact', 'x509-certificate') and rng.random() < 0.12:
        # only algorithms outside the vocabulary (allow_custom): the chosen one contributes under the spelling it was given in, whatever
        # spelling of the same algorithm an earlier call of the process used
        c['hashes'] = gen_custom_hashes(rng)
        item['custom'] = True
    return item


HASH_SPELLINGS = {'MD5': ['md5', 'Md5'], 'SHA-1': ['sha1', 'sha-1', 'SHA1'], 'SHA-256': ['sha256', 'sha-256', 'SHA256'],
                  'SHA-512': ['sha512', 'SHA512'], 'SHA3-256': ['sha3-256', 'SHA3256'], 'SSDEEP': ['ssdeep'], 'SHA3-512': ['sha3-512'], 'TLSH': ['tlsh']}


def respell_hashes(props, n):
    """The same hashes under other recognised spellings of the algorithm names (the id must not depend on them)."""
    if not isinstance(props.get('hashes'), dict):
        return props
    out = dict(props)
    out['hashes'] = {}
    for i, (k, v) in enumerate(props['hashes'].items()):
        alts = HASH_SPELLINGS.get(k, [k])
        out['hashes'][alts[(n + i) % len(alts)]] = v
    return out


def expected_canonical(item):
    """Canonical JSON of exactly the present contributing properties (one hash chosen by preference)."""
    obj = {}
    given = item['c']
    if item['type'] == 'x-sim-obs-d':
        given = dict(OBS_D_DEFAULTS, **given)        # what is not given is filled in with the declared default, and is then present
    for k in CONTRIB[item['type']]:
        if k in given:
            v = given[k]
            if k == 'hashes':
                for a in PREF:
                    if a in v:
                        v = {a: v[a]}
                        break
                else:
                    first = next(iter(v))
                    v = {first: v[first]}
            if k == 'seen_ms':
                from .. import tsparse
                v = tsparse.fmt(tsparse.us_of(v), digits=3)      # millisecond precision, exactly three digits
            obj[k] = v
    return jcs.canonical(obj) if obj else None


def shuffle_rec(v, rng, keep=('hashes',)):
    """Recursively shuffled key order; the `hashes` dictionary keeps its order when no preferred algorithm is in it
    ("else first" is defined by that order)."""
    if isinstance(v, dict):
        keys = list(v)
        rng.shuffle(keys)
        return {k: (dict(v[k]) if k in keep and isinstance(v[k], dict) and not any(a in PREF for a in v[k]) else shuffle_rec(v[k], rng, keep))
                for k in keys}
    if isinstance(v, list):
        return [shuffle_rec(x, rng) for x in v]
    return v


class C06(Profile):
    pid = 'C06'
    owns_registries = True
    tiers = {'quick': 4000, 'thorough': 200000}
    wall_cap = {'quick': 900, 'thorough': 5 * 3600}
    probes = ['timestamp_as_datetime_in_dst_zone', 'timestamp_as_value_of_another_object', 'defaulted_contributing_property', 'construction_refused_during_id_generation', 'utf16_vs_codepoint_member_order', 'disturbance_between_constructions', 'no_contributing_property_v4', 'hash_preference_applied', 'non_preferred_single_hash', 'non_preferred_several_hashes_first_wins', 'extension_with_float', 'custom_observable',
              'equal_contrib_different_noncontrib', 'near_miss_different_id', 'string_needing_escape', 'astral_or_bmp_boundary',
              'route_bundle_member', 'route_memory_store', 'uuid4_stream_differs', 'hash_names_respelled', 'falsy_contributing_value']
    rule = ('plans: 6-14 items (a 2.1 observable type incl. two registered custom observables, contributing and non-contributing values with '
            'JSON-escape-class strings, astral characters, integers, timestamps, reference lists, hash dictionaries, nested extensions with floats), '
            'each minted through 4-10 routes x uuid4 stream x clock x argument/dictionary order; runs 4k..4k+3 hold the same items and execute under '
            'four different PYTHONHASHSEED interpreters whose id tables the driver compares. non-trivial = >=2 ids compared for invariance AND >=1 '
            'id compared with the independent canonical-JSON+UUIDv5 oracle; distinct = distinct plan digests')
    state_measure = 'distinct (type, set of contributing properties present, route, uuid4-stream, clock mode) tuples'
    assumptions = ['jcs.py (own RFC 8785 writer, checked against the RFC vectors) and hashlib.sha1 are correct',
                   'frozen per-type contributing-property lists follow the specification; software.languages is never generated',
                   'when only non-preferred hash algorithms are present, "else first" means first in the order the caller gave; the harness never reorders such a hashes dictionary']
    components = dict(COMPONENTS_COMMON, real=COMPONENTS_COMMON['real'] + ['stix2.base._Observable._generate_id', 'stix2.canonicalization', 'stix2.v21.observables', 'stix2.custom'],
                      simulated=COMPONENTS_COMMON['simulated'] + ['uuid4 stream per construction', 'argument / dictionary order', 'construction route'])

    def group_of(self, index):
        return index // 4

    def generate(self, rng, index, tier):
        irng = random.Random('c06-items:%s:%d' % (tier, index // 4))     # same items for the four hash-seed classes
        items = []
        for n in range(irng.randrange(6, 15)):
            it = gen_item(irng, n)
            items.append(it)
            r = irng.random()
            if r < 0.25:
                tw = gen_item(irng, n)
                twin = {'type': it['type'], 'c': json.loads(json.dumps(it['c'])), 'nc': tw['nc'] if tw['type'] == it['type'] else dict(it['nc']), 'twin_of': len(items) - 1}
                if it['type'] == 'artifact':
                    twin['nc'] = dict(it['nc'])
                if it['type'] == 'process':
                    twin['nc'] = dict(it['nc'], pid=it['nc']['pid'] + 1)
                if it.get('custom'):
                    twin['custom'] = True
                items.append(twin)
            elif r < 0.4 and it['c']:
                near = json.loads(json.dumps(it))
                k = irng.choice(sorted(near['c']))
                v = near['c'][k]
                if k.endswith('_ref') or k in ('payload_bin', 'cpe', 'account_type', 'value', 'start', 'end', 'serial_number', 'seen_ms', 'seen_any'):
                    near = None
                elif isinstance(v, bool):
                    near['c'][k] = not v
                elif isinstance(v, str):
                    near['c'][k] = v + 'x'
                elif isinstance(v, int):
                    near['c'][k] = v + 1
                elif k in ('extensions', 'meta') and 'hashes' in json.dumps(v):
                    # differ only in the LAST member of a nested hashes dictionary
                    stack = [v]
                    hit = None
                    while stack:
                        cur = stack.pop()
                        if isinstance(cur, dict):
                            if isinstance(cur.get('hashes'), dict) and len(cur['hashes']) > 1:
                                hit = cur['hashes']
                            stack.extend(cur[x] for x in sorted(cur) if x != 'hashes')
                        elif isinstance(cur, list):
                            stack.extend(cur)
                    if hit:
                        last = list(hit)[-1]
                        hit[last] = hit[last][:-1] + ('0' if hit[last][-1] != '0' else '1')
                    else:
                        near = None
                else:
                    near = None
                if near:
                    near['near_of'] = len(items) - 1
                    items.append(near)
        ops = []
        for ix, it in enumerate(items):
            routes = irng.sample(ROUTES, irng.randrange(4, len(ROUTES) + 1))
            for r in routes:
                ops.append({'op': 'mint', 'item': ix, 'route': r, 'uuid_stream': irng.randrange(2), 'clock': irng.choice(['1970', '2038', 'stalled']),
                            'perm': irng.randrange(10 ** 6)})
        # history: other library calls on objects of the same types happen between the constructions (versioning, revoking,
        # marking, copying, storing, serialising ...); none of them may change what a later construction mints
        for _ in range(irng.randrange(0, 1 + len(items))):
            ops.append({'op': 'disturb', 'route': 'disturb', 'item': irng.randrange(len(items)), 'what': irng.choice(DISTURBANCES),
                        'perm': irng.randrange(10 ** 6)})
        irng.shuffle(ops)
        return {'config': {}, 'items': items, 'ops': ops}

    # ------------------------------------------------------------------ execution
    def execute(self, plan, world):
        import stix2
        from stix2.properties import BooleanProperty, DictionaryProperty, IntegerProperty, StringProperty
        self.s = s = stix2

        @s.v21.CustomObservable('x-sim-obs-a', [('alpha', StringProperty()), ('beta', IntegerProperty()), ('flag', BooleanProperty()),
                                                ('gamma', StringProperty())],
                                id_contrib_props=['alpha', 'beta', 'flag'])
        class ObsA(object):
            pass

        @s.v21.CustomObservable('x-sim-obs-b', [('name', StringProperty(required=True)), ('meta', DictionaryProperty(spec_version='2.1')),
                                                ('note', StringProperty())], id_contrib_props=['name', 'meta'])
        class ObsB(object):
            pass

        from stix2.properties import TimestampProperty

        @s.v21.CustomObservable('x-sim-obs-c', [('seen_ms', TimestampProperty(precision='millisecond')), ('seen_any', TimestampProperty()),
                                                ('label', StringProperty()), ('note', StringProperty())],
                                id_contrib_props=['seen_ms', 'seen_any', 'label'])
        class ObsC(object):
            pass

        @s.v21.CustomObservable('x-sim-obs-d', [('channel', IntegerProperty(default=lambda: 7)), ('enabled', BooleanProperty(default=lambda: False)),
                                                ('label', StringProperty()), ('note', StringProperty())],
                                id_contrib_props=['channel', 'enabled', 'label'])
        class ObsD(object):
            pass

        @s.v21.CustomObservable('x-sim-obs-e', [('name', StringProperty()), ('note', StringProperty())], id_contrib_props=['name', 'extensions'])
        class ObsE(object):
            pass
        items = plan['items']
        seen = {}       # item index -> {id}
        canon_ids = {}  # canonical text -> id
        for i, op in enumerate(plan['ops']):
            world.op_index = i
            world.stat('op:' + op['route'])
            ix = op['item'] % len(items)
            if op.get('op') == 'disturb':
                self.disturb(world, items[ix], op)
                continue
            self.mint(world, items, ix, op, seen, canon_ids)
        world.group = sorted((ix, sorted(v)) for ix, v in seen.items() if expected_canonical(items[ix]) is not None)

    def disturb(self, world, it, op):
        """An operation on an observable of the item's type that is NOT a construction under test; outcomes are not judged here
        (other properties own them), only what it leaves behind for the constructions that follow."""
        s = self.s
        t = it['type']
        cls = s.registry.class_for_type(t, '2.1', 'observables')
        props = json.loads(json.dumps(dict(it['c'], **it['nc'])))
        world.clock.set(1900000000000000, mode='tick', step=1000)
        what = op['what']
        stamp = {'created': '2020-01-01T00:00:00.000Z', 'modified': '2020-01-01T00:00:00.000Z', 'revoked': False}
        if what == 'refused_in_id_generation':
            # a construction that is refused half-way through the computation of its id (a number the canonical form cannot
            # express): whatever that leaves behind must not reach the next id
            k = op['perm'] % 4
            bad = [lambda: s.v21.AutonomousSystem(number=10 ** 400),
                   lambda: s.v21.File(name='f', extensions={'extension-definition--' + C.mkuuid(1, 'c06bad'): {
                       'extension_type': 'property-extension', 'a': 'text before', 'n': float('nan')}}),
                   lambda: s.v21.NetworkTraffic(protocols=['tcp'], src_ref=C.REF_IPV4, extensions={'extension-definition--' + C.mkuuid(2, 'c06bad'): {
                       'extension_type': 'property-extension', 'list': [1, 2, float('inf')]}}),
                   lambda: s.parse({'type': 'autonomous-system', 'spec_version': '2.1', 'number': -(10 ** 400), 'name': 'x'})][k]
            tag = call(bad).tag
            world.probe('construction_refused_during_id_generation' if tag != 'ok' else 'disturbance_between_constructions')
            world.log(op='disturb', what=what, k=k, outcome=tag)
            return
        base = call(lambda: cls(allow_custom=True, **dict(props, **stamp)))      # a versionable observable (custom created/modified/revoked)
        tag = 'base-failed'
        if base.ok:
            o = base.value
            if what == 'new_version':
                tag = call(s.versioning.new_version, o, x_note='n').tag
            elif what == 'new_version_dict':
                tag = call(s.versioning.new_version, json.loads(o.serialize()), x_note='n').tag
            elif what == 'revoke':
                tag = call(s.versioning.revoke, o).tag
            elif what == 'illegal_new_version':
                k = sorted(it['c'])[op['perm'] % len(it['c'])] if it['c'] else 'id'
                tag = call(s.versioning.new_version, o, **{k: None}).tag
            elif what == 'marking':
                tag = call(s.markings.add_markings, o, C.TLP['red'], ['type']).tag
            elif what == 'deepcopy':
                tag = call(copy.deepcopy, o).tag
            elif what == 'serialize':
                tag = call(o.serialize, pretty=bool(op['perm'] % 2), sort_keys=bool(op['perm'] % 3)).tag
            elif what == 'store':
                st = s.MemoryStore()
                tag = call(st.add, o).tag
                call(st.query, [s.Filter('type', '=', t)])
            elif what == 'bundle':
                tag = call(lambda: s.v21.Bundle(objects=[o], allow_custom=True).serialize()).tag
            elif what == 'remove_custom':
                tag = call(s.versioning.remove_custom_stix, o).tag
            elif what == 'equality':
                tag = call(lambda: (o == o, hash(repr(o)), str(o))).tag
        world.probe('disturbance_between_constructions')
        world.log(op='disturb', what=what, type=t, outcome=tag)

    def mint(self, world, items, ix, op, seen, canon_ids):
        s = self.s
        it = items[ix]
        t = it['type']
        from ..seams import SimUUID
        # environment for this construction: uuid4 stream and clock
        world.uuid.uninstall()
        world.uuid = SimUUID(1000 + op.get('uuid_stream', 0) * 7919 + ix)
        world.uuid.install()
        world.clock.set({'1970': 1000000, '2038': 2147483648000000, 'stalled': 1500000000000000}[op.get('clock', 'stalled')],
                        mode='fixed' if op.get('clock') == 'stalled' else 'tick', step=1000)
        rng = random.Random(op.get('perm', 0))
        props = dict(it['c'])
        props.update(it['nc'])
        props = json.loads(json.dumps(props))
        if op.get('perm', 0) % 5 == 0 and 'hashes' in props:
            props = respell_hashes(props, op['perm'])
            world.probe('hash_names_respelled')
        d = dict(type=t, spec_version='2.1', **props)
        cls = s.registry.class_for_type(t, '2.1', 'observables')
        route = op['route']
        allow = t.startswith('x-') or bool(it.get('custom'))
        ac = {'allow_custom': True} if it.get('custom') else {}
        if route.startswith('kwargs') and op.get('perm', 0) % 3 == 0:
            # timestamps handed over as aware datetime objects of a zone with daylight saving time (same instants)
            for k2 in ('start', 'end', 'seen_ms', 'seen_any', 'date'):
                if isinstance(props.get(k2), str):
                    loc = as_local_datetime(props[k2])
                    if loc is not None:
                        props[k2] = loc
                        world.probe('timestamp_as_datetime_in_dst_zone')
        if route.startswith('kwargs') and op.get('perm', 0) % 3 == 1:
            # timestamps handed over as the datetime VALUES another object holds (what a caller gets from identity.created: a
            # STIXdatetime that carries that property's precision settings) - the same instants
            for k2 in ('start', 'end', 'seen_ms', 'seen_any', 'date'):
                if isinstance(props.get(k2), str):
                    donor = call(lambda: s.v21.Identity(name='donor', created=props[k2], modified=props[k2]))
                    if donor.ok and tsparse.us_of(props[k2]) % 1000 == 0:
                        props[k2] = donor.value['created']
                        world.probe('timestamp_as_value_of_another_object')
        if route.startswith('kwargs'):
            keys = list(props)
            if route == 'kwargs_reversed':
                keys.reverse()
            elif route == 'kwargs_shuffled':
                rng.shuffle(keys)
            kw = {k: props[k] for k in keys}
            out = call(lambda: cls(**dict(kw, **ac)))
            obj = out.value if out.ok else None
        elif route == 'parse_dict_shuffled':
            out = call(s.parse, shuffle_rec(d, rng), version='2.1', **ac)
            obj = out.value if out.ok else None
        elif route == 'parse_text':
            out = call(s.parse, json.dumps(shuffle_rec(d, rng), ensure_ascii=bool(op['perm'] % 2)), **ac)
            obj = out.value if out.ok else None
        elif route == 'reserialize_drop_id':
            out = call(lambda: cls(**dict(props, **ac)))
            obj = None
            if out.ok:
                j = json.loads(out.value.serialize())
                first_id = j.pop('id')
                out = call(s.parse, j, **ac)
                obj = out.value if out.ok else None
                if obj is not None and obj['id'] != first_id and expected_canonical(it) is not None:
                    raise Violation('id-invariant', 'C06.id-changed-on-roundtrip/%s' % t, dict(first=first_id, second=obj['id']))
        elif route == 'deepcopy':
            out = call(lambda: cls(**dict(props, **ac)))
            obj = None
            if out.ok:
                first_id = out.value['id']
                out = call(copy.deepcopy, out.value)
                obj = out.value if out.ok else None
                if obj is not None and obj['id'] != first_id:
                    raise Violation('id-invariant', 'C06.id-changed-on-deepcopy/%s' % t, dict(first=first_id, second=obj['id']))
        elif route == 'bundle_member':
            world.probe('route_bundle_member')
            out = call(lambda: s.v21.Bundle(objects=[shuffle_rec(d, rng)], allow_custom=allow))
            obj = out.value['objects'][0] if out.ok else None
        elif route == 'parse_observable':
            out = call(s.parse_observable, shuffle_rec(d, rng), version='2.1', **ac)
            obj = out.value if out.ok else None
        else:
            world.probe('route_memory_store')
            st = s.MemoryStore()
            out = call(st.add, shuffle_rec(d, rng))
            obj = None
            if out.ok:
                q = st.query([])
                obj = q[0] if len(q) == 1 else None
        if obj is None or isinstance(obj, dict):
            raise Violation('constructible', 'C06.valid-observable-refused/%s/%s' % (route, type(out.exc).__name__ if out.exc else 'none'),
                            dict(type=t, props=props, exc=repr(out.exc)[:300]))
        got = obj['id']
        exp_c = expected_canonical(it)
        handed = set(world.uuid.handed_out)
        world.changed()
        world.state(t, tuple(sorted(it['c'])), route, op.get('uuid_stream'), op.get('clock'))
        world.log(op='mint', item=ix, route=route, id=got if exp_c is not None else 'v4')
        if any(isinstance(v, str) and any(ch in v for ch in '"\\\n\r\t\u0007\u0000') for v in it['c'].values()):
            world.probe('string_needing_escape')
        if any(isinstance(v, str) and any(ord(ch) > 0xd7fe for ch in v) for v in it['c'].values()):
            world.probe('astral_or_bmp_boundary')
        if t.startswith('x-sim'):
            world.probe('custom_observable')
        if t == 'x-sim-obs-d' and any(given_v == OBS_D_DEFAULTS[k] for k, given_v in dict(OBS_D_DEFAULTS, **it['c']).items() if k in OBS_D_DEFAULTS):
            world.probe('defaulted_contributing_property')
        if any(v in (0, '', False) and not isinstance(v, float) for v in it['c'].values() if not isinstance(v, (dict, list))):
            world.probe('falsy_contributing_value')
        if 'hashes' in it['c']:
            world.probe('hash_preference_applied' if any(a in PREF for a in it['c']['hashes']) else
                        'non_preferred_single_hash' if len(it['c']['hashes']) == 1 else 'non_preferred_several_hashes_first_wins')
        if 'windows-pebinary-ext' in (it['c'].get('extensions') or {}):
            world.probe('extension_with_float')
        for ext in (it['c'].get('extensions') or {}).values():
            ks = sorted(ext.get('names', {})) if isinstance(ext, dict) else []
            if ks != sorted(ks, key=lambda k: k.encode('utf-16-be', 'surrogatepass')):
                world.probe('utf16_vs_codepoint_member_order')
        prefix = t + '--'
        if not got.startswith(prefix):
            raise Violation('id-exact', 'C06.id-prefix/%s' % t, dict(got=got))
        u = got[len(prefix):]
        if exp_c is None:
            # (3) nothing contributes: a random UUIDv4, exactly a value the uuid4 seam handed out
            world.probe('no_contributing_property_v4')
            world.compared()
            if u not in handed:
                raise Violation('id-exact', 'C06.v4-not-from-uuid4/%s' % t, dict(got=got, handed=sorted(handed)[:3]))
            if u[14] != '4':
                raise Violation('id-exact', 'C06.v4-wrong-version/%s' % t, dict(got=got))
            prev = seen.setdefault(ix, {})
            prev.setdefault(op.get('uuid_stream'), set()).add(u)
            if len(prev) > 1:
                a, b = [prev[k] for k in sorted(prev)][:2]
                if a & b:
                    raise Violation('id-exact', 'C06.v4-not-random/%s' % t, dict(ids=sorted(a & b)))
                world.probe('uuid4_stream_differs')
            return
        want = prefix + jcs.uuid5(NAMESPACE, exp_c)
        world.compared()
        ids = seen.setdefault(ix, set())
        ids.add(got)
        if got != want:
            cause = 'other'
            if u in handed:
                cause = 'random-instead-of-deterministic'
            elif u[14] != '5':
                cause = 'not-v5'
            raise Violation('id-exact', 'C06.id-mismatch/%s/%s' % (t, cause),
                            dict(got=got, want=want, canonical=exp_c[:400], route=route, contributing=sorted(it['c'])))
        if len(ids) > 1:
            raise Violation('id-invariant', 'C06.id-varies/%s' % t, dict(ids=sorted(ids), route=route))
        # (4) across items: equal ids <=> equal canonical contributing JSON (same type)
        key = (t, exp_c)
        other = canon_ids.setdefault(key, got)
        if other != got:
            raise Violation('id-invariant', 'C06.same-canonical-different-id/%s' % t, dict(a=other, b=got))
        if 'twin_of' in it:
            world.probe('equal_contrib_different_noncontrib')
        if 'near_of' in it:
            base = items[it['near_of']]
            bid = next(iter(seen.get(it['near_of'], [])), None) if not isinstance(seen.get(it['near_of']), dict) else None
            world.probe('near_miss_different_id')
            if bid is not None and bid == got and expected_canonical(base) != exp_c:
                raise Violation('id-invariant', 'C06.different-canonical-same-id/%s' % t, dict(id=got))


PROFILE = C06()
