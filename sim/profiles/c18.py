"""C18 - federated sources and relationship navigation equal a scan of the data (engine `storeworld`).

Member sources are the simulator's "nodes": the plan partitions a population (with overlapping copies
and different versions of one id on different members), chooses the attachment order, detaches and
re-attaches members, and drives get / all_versions / query / relationships / related_to / creator_of
through every facade (composite, nested composite, Environment over a store, Environment over a
source, the plain store).  Oracle: list model = union of the attached members' contents.
"""
import os

from . import Profile, COMPONENTS_COMMON
from .. import catalog as C
from .. import common as U
from .. import filtereval as FE
from .. import storeworld as SW
from .. import tsparse
from ..core import Violation, call

RTYPES = ['uses', 'indicates', 'related-to']
FACADES = [('cds', 5), ('nested', 2), ('env_src', 2), ('env_store', 1), ('env_both', 2), ('store', 2), ('pc', 3)]
READS = ['get', 'all_versions', 'query', 'relationships', 'related_to', 'creator_of']


class C18(Profile):
    pid = 'C18'
    needs_disk = True
    owns_registries = True
    tiers = {'quick': 1500, 'thorough': 120000}
    wall_cap = {'quick': 1200, 'thorough': 6 * 3600}
    probes = ['refused_add_among_the_adds', 'relationship_versions_differ_in_direction', 'filter_attached_through_environment', 'bare_composite_after_environment_filter', 'newest_on_last_member', 'newest_on_first_member', 'same_version_on_two_members',
              'relationship_and_endpoint_on_different_members', 'nested_composite', 'self_loop', 'detached_member_excluded',
              'composite_filter_attached', 'related_to_nonempty', 'creator_found', 'creator_missing', 'env_facade',
              'navigation_by_id_string', 'relationships_nonempty', 'source_only', 'target_only', 'static_memory_source', 'dict_kept_versions_federated', 'nested_composite_with_own_filter']
    rule = ('plans: 2-4 member sources (MemoryStore, FileSystemStore on the simulated disk, static MemorySource), a population of <=30 '
            'object versions and <=10 relationships partitioned over the members by the plan (overlaps, different versions of one id on '
            'different members), then 20-50 reads/navigation calls through composite / nested composite / Environment / plain store in a '
            'plan-chosen attachment order, with attach/detach in between; non-trivial = >=1 add AND >=1 read compared on a non-empty '
            'expectation; distinct = distinct plan digests')
    state_measure = 'distinct (facade, read kind, option combination, #members, result empty/non-empty, newest-location class) tuples'
    assumptions = ['navigation results are compared as sets of (id, version) (plain stores return a self-loop relationship twice)',
                   'composite filters are generated only on properties that are constant across versions (type, id, created_by_ref)']
    components = dict(COMPONENTS_COMMON,
                      real=COMPONENTS_COMMON['real'] + ['stix2.datastore (CompositeDataSource, DataSource navigation)', 'stix2.environment',
                                                        'stix2.datastore.memory', 'stix2.datastore.filesystem', 'tmpfs'],
                      simulated=COMPONENTS_COMMON['simulated'] + ['member attachment order / placement of versions', 'readdir order', 'file time stamps (disk-owned clock, plan-chosen granularity)'])

    # ------------------------------------------------------------------ generation
    def generate(self, rng, index, tier):
        nm = rng.choice([2, 2, 3, 3, 4])
        members = [rng.choice(['mem', 'mem', 'fs', 'fs', 'memsrc']) for _ in range(nm)]
        if 'memsrc' in members and all(m == 'memsrc' for m in members):
            members[0] = 'mem'
        cfg = {'members': members, 'm_allow_custom': True, 'fs_allow_custom': True, 'bundlify': rng.random() < 0.1, 'mtime_gran': rng.choice([1, 1, 4, 0]), 'early_parse': rng.random() < 0.3}
        n_ident = rng.randrange(1, 4)
        n_sdo = rng.randrange(2, 7)
        pool = SW.gen_pool(rng, index, n_ident, 3, [('identity', 1)]) + \
            SW.gen_pool(rng, index + 500000, n_sdo, rng.choice([1, 2, 3]), [('sdo', 8), ('cobs', 1)], upper_ids=rng.choice([0, 0, 0.3, 1.0]))
        for e in pool:
            if e['kind'] == 'sdo':
                e['type'] = rng.choice([t for t in C.versioned_types(e['ver']) if t not in ('relationship', 'sighting')])
                minimal, rich = C.template(e['ver'], e['type'])[:2]
                e['rich'] = [k for k in rich if rng.random() < 0.2]
                e['common'] = []
            if rng.random() < 0.6:
                e['creator'] = rng.randrange(n_ident) if rng.random() < 0.85 else None
            if e.get('creator') is None or e['kind'] == 'cobs':
                e.pop('creator', None)
        n_obj = len(pool)
        if rng.random() < 0.2:
            # objects kept as dicts, timestamps spelled with varying numbers of digits, spread over the members
            extra = SW.gen_pool(rng, index + 700000, rng.randrange(1, 3), 4, [('unreg', 1)], digits_mixed=True)
            for e in extra:
                if not e['versions']:
                    e['versions'] = [1500000000000000 + 7 * (len(pool) + 1)]
            pool.extend(extra)
        for r in range(rng.randrange(1, 8)):
            src = rng.randrange(n_obj)
            dst = src if rng.random() < 0.15 else rng.randrange(n_obj)
            ver = rng.choice(['2.0', '2.1'])
            e = SW.gen_pool(rng, index + 900000 + r, 1, 3, [('sdo', 1)], versions=(ver,))[0]
            e.update(kind='rel', type='relationship', src=src, dst=dst, rtype=rng.choice(RTYPES), rich=[], common=[])
            if rng.random() < 0.35:
                e['flip'] = [rng.random() < 0.5 for _ in range(4)]       # versions of one relationship id that differ in direction
            if rng.random() < 0.3:
                e['creator'] = rng.randrange(n_ident)
            pool.append(e)
        # missing creator: reference an identity that is never stored
        if rng.random() < 0.3:
            pool.append({'kind': 'identity', 'ver': '2.1', 'type': 'identity', 'id_n': index * 64 + 60, 'versions': [1500000000000000],
                         'created_us': 1500000000000000, 'never': True})
            for e in pool:
                if e['kind'] == 'sdo' and 'creator' not in e and rng.random() < 0.5:
                    e['creator'] = len(pool) - 1
        items = [(k, j) for k, e in enumerate(pool) if not e.get('never') for j in range(SW.n_versions(e))]
        static = []
        ops = []
        addable = [m for m in range(nm) if members[m] != 'memsrc']
        for k, j in items:
            placed = False
            for m in range(nm):
                if rng.random() < (0.55 if not placed else 0.3):
                    placed = True
                    if members[m] == 'memsrc':
                        static.append([m, k, j])
                    else:
                        ops.append({'op': 'add', 'member': m, 'k': k, 'j': j, 'as': rng.choice(['obj', 'dict'])})
            if not placed:
                ops.append({'op': 'add', 'member': rng.choice(addable), 'k': k, 'j': j, 'as': 'obj'})
        if rng.random() < 0.35 and addable:
            # an add that is REFUSED (invalid content) somewhere among the adds: what is added afterwards must be found all the same
            for _ in range(rng.choice([1, 1, 2])):
                ops.append({'op': 'bad_add', 'member': rng.choice(addable), 'what': rng.randrange(6)})
        rng.shuffle(ops)
        cfg['static'] = static
        reads = []
        for _ in range(rng.randrange(20, 51)):
            if rng.random() < 0.12:
                reads.append({'op': rng.choice(['detach', 'attach']), 'member': rng.randrange(nm)})
                continue
            kind = U.weighted(rng, [('get', 3), ('all_versions', 2), ('query', 2), ('relationships', 3), ('related_to', 4), ('creator_of', 2)])
            order = list(range(nm))
            rng.shuffle(order)
            op = {'op': kind, 'facade': U.weighted(rng, FACADES), 'order': order, 'k': rng.randrange(len(pool)),
                  'j': rng.randrange(5), 'ls_key': rng.randrange(1000), 'member': rng.randrange(nm)}
            if kind in ('relationships', 'related_to'):
                op['rtype'] = rng.choice([None, None] + RTYPES)
                so = rng.choice([0, 0, 1, 2])
                op['source_only'], op['target_only'] = so == 1, so == 2
                op['as'] = rng.choice(['obj', 'dict', 'id'])
                if kind == 'related_to' and rng.random() < 0.5:
                    t1, t2 = pool[rng.randrange(n_obj)]['type'], pool[rng.randrange(n_obj)]['type']
                    tgt = pool[rng.randrange(n_obj)]
                    op['rfilters'] = rng.choice([
                        [['type', '=', t1]], [['type', '!=', t1]], [['type', 'in', [t1, t2]]], [['type', '!=', t1], ['type', '!=', t2]],
                        [['id', '!=', SW.eid(tgt)]], [['created_by_ref', '=', SW.eid(pool[0])]],
                        [['type', '=', t1], ['labels', 'contains', 'v0']], [['labels', 'in', ['v1', 'v2']]],
                        # a property some objects carry as an EMPTY string: present, equal to '', different from anything else
                        [['description', '!=', 'deprecated']], [['description', '=', '']], [['description', '!=', '']]])
            if kind == 'query':
                op['qtype'] = pool[rng.randrange(len(pool))]['type']
            if rng.random() < 0.25 and kind in ('get', 'all_versions', 'query'):
                tgt = pool[rng.randrange(len(pool))]
                op['cfilter'] = rng.choice([['type', '=', tgt['type']], ['type', '!=', tgt['type']],
                                            ['id', '!=', SW.eid(tgt)]])
            if rng.random() < 0.5 and kind in ('get', 'all_versions', 'query') and op['facade'] == 'nested':
                tgt = pool[rng.randrange(len(pool))]
                op['cfilter_inner'] = rng.choice([['type', '!=', tgt['type']], ['id', '!=', SW.eid(tgt)],
                                                  ['type', '=', tgt['type']]])
            reads.append(op)
        # interleave a few late adds among the reads
        late = [ops.pop() for _ in range(min(len(ops) // 4, 4))]
        for a in late:
            reads.insert(rng.randrange(len(reads) + 1), a)
        return {'config': cfg, 'pool': pool, 'ops': ops + reads}

    def simplify(self, op):
        out = []
        for k in ('cfilter', 'filter_type', 'rtype', 'rfilters', 'cfilter_inner'):
            if op.get(k):
                out.append({a: b for a, b in op.items() if a != k})
        if op.get('source_only') or op.get('target_only'):
            out.append(dict(op, source_only=False, target_only=False))
        if op.get('facade') not in (None, 'cds'):
            out.append(dict(op, facade='cds'))
        if op.get('order') and op['order'] != sorted(op['order']):
            out.append(dict(op, order=sorted(op['order'])))
        return out

    # ------------------------------------------------------------------ execution
    def execute(self, plan, world):
        import stix2
        self.stix2 = stix2
        cfg = plan['config']
        sw = SW.StoreWorld(world, plan, 'C18')
        pool = sw.pool
        self.members = []
        self.models = []
        for m, kind in enumerate(cfg['members']):
            if kind == 'mem':
                st = stix2.MemoryStore()
            elif kind == 'fs':
                d = os.path.join(sw.disk.root, 'member%d' % m)
                os.mkdir(d)
                st = stix2.FileSystemStore(d, allow_custom=True, bundlify=bool(cfg.get('bundlify')))
            else:
                data = [C._copy(SW.content(pool, k, j)) for mm, k, j in cfg.get('static', []) if mm == m]
                st = stix2.MemorySource(stix_data=data)
                world.probe('static_memory_source')
            self.members.append(st)
            model = {}
            if kind == 'memsrc':
                for mm, k, j in cfg.get('static', []):
                    if mm == m:
                        d = SW.content(pool, k, j)
                        model[SW.key_of(d)] = d
                        world.changed()
            self.models.append(model)
        self.attached = list(range(len(self.members)))
        self.pc = stix2.CompositeDataSource()
        self.pc.add_data_sources([self.source_of(m) for m in self.attached])
        for i, op in enumerate(plan['ops']):
            world.op_index = i
            world.stat('op:' + op['op'])
            kind = op['op']
            if kind == 'add':
                self.op_add(sw, world, op)
            elif kind == 'bad_add':
                m = op['member'] % len(self.members)
                if sw.cfg['members'][m] != 'memsrc':
                    bad = {'type': 'identity', 'spec_version': '2.1', 'id': 'identity--not-a-uuid', 'name': 'refused',
                           'created': '2017-01-01T00:00:00.000Z', 'modified': '2017-01-01T00:00:00.000Z'}
                    arg = [bad, [bad], {'type': 'bundle', 'id': C.mkid('bundle', i), 'objects': [bad]}, dict(bad, id=C.mkid('identity', 999000 + i), created='yesterday'),
                           dict(bad, type='indicator', id=C.mkid('indicator', 999000 + i)), 12345][op['what'] % 6]
                    out = call(self.members[m].add, arg)
                    world.log(op='bad_add', m=m, what=op['what'] % 6, outcome=out.tag)
                    if not out.ok:
                        world.probe('refused_add_among_the_adds')
            elif kind == 'detach':
                m = op['member'] % len(self.members)
                self.pc.remove_data_source(self.source_of(m).id)
                if m in self.attached:
                    self.attached.remove(m)
                world.log(op='detach', m=m)
            elif kind == 'attach':
                m = op['member'] % len(self.members)
                self.pc.add_data_source(self.source_of(m))
                if m not in self.attached:
                    self.attached.append(m)
                world.log(op='attach', m=m)
            else:
                sw.disk.begin_op(op.get('ls_key', 0))
                self.op_read(sw, world, op)
                sw.disk.end_op()

    def source_of(self, m):
        st = self.members[m]
        return getattr(st, 'source', st)

    def op_add(self, sw, world, op):
        m = op['member'] % len(self.members)
        if sw.cfg['members'][m] == 'memsrc':
            return
        k = op['k'] % len(sw.pool)
        if sw.pool[k].get('never'):
            return
        j = op['j'] % SW.n_versions(sw.pool[k])
        val, d = sw.make_input(k, j, op.get('as', 'obj'))
        if val is None:
            return
        if sw.pool[k]['kind'] == 'unreg' and (op['member'] + j) % 2 and isinstance(d.get('modified'), str):
            # the same version spelled differently on different members (kept as dicts: the text is what the stores see)
            us, nd = tsparse.parse(d['modified'])
            d = dict(d, modified=tsparse.fmt(us, digits=6) if nd < 6 else tsparse.fmt(us))
            val = C._copy(d)
        out = call(self.members[m].add, val)
        key = SW.key_of(d)
        if out.ok:
            self.models[m][key] = d
            world.changed()
        elif key not in self.models[m]:
            world.stat('add_raised')
        world.log(op='add', m=m, key=SW.kstr(key), outcome=out.tag)

    # -- facades ---------------------------------------------------------------
    def facade(self, world, op):
        """Returns (object to call, list of member indices it federates)."""
        s = self.stix2
        nm = len(self.members)
        order = [m % nm for m in op.get('order', range(nm))]
        order = [m for i, m in enumerate(order) if m not in order[:i]] or [0]
        f = op.get('facade', 'cds')
        if f == 'pc':
            if not self.attached:
                return None, []
            if len(self.attached) < nm:
                world.probe('detached_member_excluded')
            return self.pc, list(self.attached)
        if f == 'store':
            m = op.get('member', 0) % nm
            return self.members[m], [m]
        if f == 'env_store':
            m = op.get('member', 0) % nm
            if not hasattr(self.members[m], 'sink'):
                return self.members[m], [m]
            world.probe('env_facade')
            return s.Environment(factory=s.ObjectFactory(), store=self.members[m]), [m]
        if f == 'env_both':
            stores = [m for m in order if hasattr(self.members[m], 'sink')]
            if stores:
                a = stores[0]
                rest = [m for m in order if m != a]
                if rest:
                    world.probe('env_facade')
                    return s.Environment(factory=s.ObjectFactory(), store=self.members[a], source=self.source_of(rest[0])), [a, rest[0]]
        cds = s.CompositeDataSource()
        if f == 'nested' and len(order) >= 2:
            inner = s.CompositeDataSource()
            inner.add_data_sources([self.source_of(m) for m in order[:-1]])
            if op.get('cfilter_inner'):
                # the nested composite has a filter of its own: it applies to ITS members only
                inner.filters.add(s.Filter(*op['cfilter_inner']))
                self.inner_members = set(order[:-1])
                world.probe('nested_composite_with_own_filter')
            # position of the nested composite among the outer members is a plan choice too
            members = [inner, self.source_of(order[-1])]
            if op.get('j', 0) % 2:
                members.reverse()
            cds.add_data_sources(members)
            world.probe('nested_composite')
        else:
            cds.add_data_sources([self.source_of(m) for m in order])
        if f == 'env_src':
            world.probe('env_facade')
            self.bare_cds = cds        # the caller's own composite: what is attached to an environment built on it is not attached to IT
            return s.Environment(factory=s.ObjectFactory(), source=cds), order
        return cds, order

    def op_read(self, sw, world, op):
        s = self.stix2
        pool = sw.pool
        self.inner_members = set()
        self.bare_cds = None
        target, mems = self.facade(world, op)
        if target is None:
            world.stat('op_skipped')
            return
        union = {}
        for m in mems:
            union.update(self.models[m])
        kind = op['op']
        k = op['k'] % len(pool)
        e = pool[k]
        sid = SW.eid(e)
        j = op.get('j', 0) % SW.n_versions(e)
        cf = op.get('cfilter')
        ctrip = []
        flt_target = None
        if cf and hasattr(target, 'filters') or (cf and hasattr(getattr(target, 'source', None), 'filters')):
            flt_target = target.filters if hasattr(target, 'filters') else target.source.filters
            fobj = s.Filter(cf[0], cf[1], cf[2])
            if self.bare_cds is not None and op.get('k', 0) % 2:
                # through the environment's own API; there is no detach, the environment lives for this op only
                a = call(target.add_filter, fobj)
                if not a.ok:
                    raise Violation('attach', 'C18.attach/environment-add_filter-raised', dict(filter=repr(fobj), outcome=a.tag))
                fobj = None
                world.probe('filter_attached_through_environment')
            elif fobj not in list(flt_target):
                if op.get('j', 0) % 4 == 3:
                    # history: attached, detached and attached again before the read
                    call(flt_target.add, fobj)
                    call(flt_target.remove, fobj)
                a = call(flt_target.add, fobj)
                if not a.ok or fobj not in list(flt_target):
                    raise Violation('attach', 'C18.attach/added-filter-not-in-set', dict(filter=repr(fobj), outcome=a.tag))
            else:
                fobj = None
            ctrip = [tuple(cf)]
            world.probe('composite_filter_attached')
        failed = True
        try:
            self.do_read(sw, world, op, kind, target, mems, union, sid, e, k, j, ctrip)
            if self.bare_cds is not None and ctrip and kind in ('get', 'all_versions', 'query') and fobj is None and not self.inner_members:
                # the composite the environment was built on never had a filter attached: it still answers as the plain union
                world.probe('bare_composite_after_environment_filter')
                self.do_read(sw, world, dict(op, facade='cds-under-filtered-env'), kind, self.bare_cds, mems, union, sid, e, k, j, [])
            failed = False
        finally:
            if flt_target is not None and fobj is not None:
                r = call(flt_target.remove, fobj)
                if not failed and (not r.ok or fobj in list(flt_target)):
                    raise Violation('attach', 'C18.detach/removed-filter-still-in-set', dict(filter=repr(fobj), outcome=r.tag))

    def do_read(self, sw, world, op, kind, target, mems, union, sid, e, k, j, ctrip):
        s = self.stix2
        pool = sw.pool
        fac = op.get('facade', 'cds')
        passes = lambda d: FE.matches(d, ctrip)
        if self.inner_members and op.get('cfilter_inner'):
            itrip = [tuple(op['cfilter_inner'])]
            vis = {}
            for m in mems:
                for key, d in self.models[m].items():
                    if passes(d) and (m not in self.inner_members or FE.matches(d, itrip)):
                        vis[key] = d
        else:
            vis = {key: d for key, d in union.items() if passes(d)}
        detail = dict(facade=fac, members=[sw.cfg['members'][m] for m in mems], cfilter=ctrip)

        def keys_of(objs):
            return [SW.obj_key(o) for o in objs]

        def fail(what, obs, exp, extra=None):
            obs_s, exp_s = set(obs), set(exp)
            miss, unexp = exp_s - obs_s, obs_s - exp_s
            cause = 'missing' if miss and not unexp else 'extra' if unexp and not miss else 'wrong-set'
            raise Violation('federation-equals-scan', 'C18.%s/%s/%s' % (what, cause, 'composite' if len(mems) > 1 else 'single'),
                            dict(detail, missing=[SW.kstr(x) for x in sorted(miss, key=repr)[:4]],
                                 unexpected=[SW.kstr(x) for x in sorted(unexp, key=repr)[:4]], extra=extra))

        if kind == 'get':
            out = call(target.get, sid)
            self.total(out, kind, detail)
            vs = [key for key in vis if key[0] == sid]
            allv = [key for key in union if key[0] == sid]
            world.compared()
            if out.value is None:
                # filters are version-constant, so either every version is visible or none
                if vs:
                    raise Violation('federation-equals-scan', 'C18.get/missing', dict(detail, id=sid, want=SW.kstr(max(vs, key=lambda x: x[1] or -1))))
            else:
                got = SW.obj_key(out.value)
                want = max(vs, key=lambda x: x[1] or -1) if vs else None
                if got != want:
                    cause = 'not-newest' if want and got[0] == sid and got in union else 'wrong-object'
                    raise Violation('federation-equals-scan', 'C18.get/%s/%s' % (cause, 'composite' if len(mems) > 1 else 'single'),
                                    dict(detail, got=SW.kstr(got), want=want and SW.kstr(want), order=op.get('order')))
                if len(mems) > 1 and want:
                    holders = [m for m in mems if want in self.models[m]]
                    if holders and holders[0] == mems[-1]:
                        world.probe('newest_on_last_member')
                    if holders and holders[0] == mems[0]:
                        world.probe('newest_on_first_member')
            if e['kind'] == 'unreg' and len(mems) > 1 and len(allv) > 1:
                world.probe('dict_kept_versions_federated')
            world.state(fac, kind, len(mems), bool(vs))
        elif kind == 'all_versions':
            out = call(target.all_versions, sid)
            self.total(out, kind, detail)
            obs = keys_of(out.value)
            exp = [key for key in vis if key[0] == sid]
            self.dups(obs, kind, mems, detail)
            world.compared()
            if set(obs) != set(exp):
                fail(kind, obs, exp)
            if len(mems) > 1 and any(sum(1 for m in mems if key in self.models[m]) > 1 for key in exp):
                world.probe('same_version_on_two_members')
            world.state(fac, kind, len(mems), bool(exp))
        elif kind == 'query':
            qt = op.get('qtype', 'identity')
            out = call(target.query, [s.Filter('type', '=', qt)])
            self.total(out, kind, detail)
            obs = keys_of(out.value)
            exp = [key for key, d in vis.items() if d['type'] == qt]
            self.dups(obs, kind, mems, detail)
            world.compared()
            if set(obs) != set(exp):
                fail(kind, obs, exp)
            world.state(fac, kind, len(mems), bool(exp))
        elif kind in ('relationships', 'related_to'):
            d0 = SW.content(pool, k, j)
            arg = sid if op.get('as') == 'id' else C._copy(d0)
            if op.get('as') == 'obj':
                o = call(s.parse, C._copy(d0), allow_custom=True)
                if o.ok:
                    arg = o.value
            if op.get('as') == 'id':
                world.probe('navigation_by_id_string')
            kw = {}
            if op.get('rtype'):
                kw['relationship_type'] = op['rtype']
            if op.get('source_only'):
                kw['source_only'] = True
                world.probe('source_only')
            if op.get('target_only'):
                kw['target_only'] = True
                world.probe('target_only')
            rels = {}
            for key, d in vis.items():
                if d['type'] != 'relationship':
                    continue
                if op.get('rtype') and d['relationship_type'] != op['rtype']:
                    continue
                is_src, is_dst = d['source_ref'] == sid, d['target_ref'] == sid
                if (is_src and not op.get('target_only')) or (is_dst and not op.get('source_only')):
                    rels[key] = d
            if any(d['source_ref'] == d['target_ref'] for d in rels.values()):
                world.probe('self_loop')
            if len({(key[0], d['source_ref']) for key, d in rels.items()}) > len({key[0] for key in rels}):
                world.probe('relationship_versions_differ_in_direction')
            if kind == 'relationships':
                out = call(target.relationships, arg, **kw)
                self.total(out, kind, detail)
                obs = keys_of(out.value)
                if len(mems) > 1:
                    self.dups(obs, kind, mems, detail)
                world.compared()
                if set(obs) != set(rels):
                    fail(kind, obs, list(rels), extra=kw)
                if rels:
                    world.probe('relationships_nonempty')
                world.state(fac, kind, len(mems), tuple(sorted(kw)), bool(rels))
            else:
                flt = None
                rtrip = [tuple(x) for x in (op.get('rfilters') or ([['type', '=', op['filter_type']]] if op.get('filter_type') else []))]
                if rtrip:
                    flt = [s.Filter(*t) for t in rtrip]
                    kw['filters'] = flt if op.get('j', 0) % 3 else flt[0] if len(flt) == 1 else flt
                out = call(target.related_to, arg, **kw)
                self.total(out, kind, detail)
                obs = keys_of(out.value)
                ids = set()
                for d in rels.values():
                    ids.update((d['source_ref'], d['target_ref']))
                ids.discard(sid)
                exp = [key for key, d in vis.items() if key[0] in ids and FE.matches(d, rtrip)]
                world.compared()
                if len(mems) > 1:
                    self.dups(obs, kind, mems, detail)
                if set(obs) != set(exp):
                    cross = False
                    for key in set(exp) - set(obs):
                        hold_obj = {m for m in mems if key in self.models[m]}
                        hold_rel = {m for m in mems for rk, rd in rels.items() if rk in self.models[m] and key[0] in (rd['source_ref'], rd['target_ref'])}
                        if hold_obj and hold_rel and not (hold_obj & hold_rel):
                            cross = True
                    if cross and set(obs) <= set(exp):
                        raise Violation('federation-equals-scan', 'C18.related_to/missing/endpoint-on-other-member',
                                        dict(detail, missing=[SW.kstr(x) for x in sorted(set(exp) - set(obs), key=repr)[:4]], opts=sorted(kw)))
                    fail(kind, obs, exp, extra=sorted(kw))
                if exp:
                    world.probe('related_to_nonempty')
                    for key in exp:
                        hold_obj = {m for m in mems if key in self.models[m]}
                        hold_rel = {m for m in mems for rk, rd in rels.items() if rk in self.models[m]}
                        if hold_obj and hold_rel and not (hold_obj & hold_rel):
                            world.probe('relationship_and_endpoint_on_different_members')
                world.state(fac, kind, len(mems), tuple(sorted(x for x in kw if x != 'filters')), bool(flt), bool(exp))
        else:  # creator_of
            d0 = SW.content(pool, k, j)
            o = call(s.parse, C._copy(d0), allow_custom=True)
            arg = o.value if o.ok and op.get('as') != 'dict' else C._copy(d0)
            out = call(target.creator_of, arg)
            self.total(out, kind, detail)
            cid = d0.get('created_by_ref')
            vs = [key for key in vis if cid and key[0] == cid]
            world.compared()
            if out.value is None:
                if vs:
                    raise Violation('federation-equals-scan', 'C18.creator_of/missing', dict(detail, creator=cid))
                world.probe('creator_missing')
            else:
                got = SW.obj_key(out.value)
                want = max(vs, key=lambda x: x[1] or -1) if vs else None
                if got != want:
                    raise Violation('federation-equals-scan', 'C18.creator_of/%s' % ('not-newest' if want and got in union else 'wrong-object'),
                                    dict(detail, got=SW.kstr(got), want=want and SW.kstr(want)))
                world.probe('creator_found')
            world.state(fac, kind, len(mems), bool(vs))
        world.log(op=kind, facade=fac, mems=mems, outcome='ok')

    def total(self, out, kind, detail):
        if not out.ok:
            raise Violation('read-total', 'C18.%s-raised/%s' % (kind, type(out.exc).__name__), dict(detail, exc=repr(out.exc)[:300]))

    def dups(self, obs, kind, mems, detail):
        if len(obs) != len(set(obs)):
            raise Violation('federation-equals-scan', 'C18.%s/duplicate/%s' % (kind, 'composite' if len(mems) > 1 else 'single'), detail)


PROFILE = C18()
