"""C12 - queries return exactly the objects satisfying every filter (engine `storeworld`).

Simulator-owned: the population built by an add history on the simulated disk, the three ways a
filter reaches a source (query argument / attached to the source / attached to a composite and
passed down), filter order, readdir order.
"""
import datetime as dt

from . import Profile, COMPONENTS_COMMON
from .. import catalog as C
from .. import common as U
from .. import filtereval as FE
from .. import storeworld as SW
from .. import tsparse
from ..core import Violation, call

KINDS = [('sdo', 8), ('sco', 2), ('marking', 1), ('custom', 2), ('cobs', 1)]
SCALAR_STR = ['type', 'id', 'name', 'description', 'created_by_ref', 'relationship_type', 'source_ref', 'target_ref']
TS = ['created', 'modified']
INT = ['confidence', 'x_info.level']
# paths through a list of objects (external_references.*), through a nested object to a scalar (x_info.level) and through nested
# objects to a LIST leaf (x_info.tags, x_info.inner.codes)
LISTY = ['labels', 'object_marking_refs', 'external_references.source_name', 'external_references.external_id',
         'granular_markings.selectors', 'granular_markings.marking_ref', 'x_info.tags', 'x_info.inner.codes']
ALL_PROPS = SCALAR_STR + TS + INT + LISTY


def _near(rng, p, v):
    if p == 'id':
        t = v.split('--')[0] if isinstance(v, str) and '--' in v else 'malware'
        return C.mkid(t, 990000 + rng.randrange(50))
    if p == 'type':
        return rng.choice(['tool', 'x-no-such-type', 'malwar', 'report'])
    if isinstance(v, int):
        return v + rng.choice([-1, 1])
    return 'zz-nope-%d' % rng.randrange(100)


def gen_filter(rng, pop, ms_only, target=None):
    p = rng.choice(ALL_PROPS)
    if target is not None:
        have = [q for q in ALL_PROPS if FE.values_at(target, q)]
        if have:
            p = rng.choice(have)
    vals = []
    for j in ([target] if target is not None else pop):
        vals.extend(FE.values_at(j, p))
    vals = sorted(set(v for v in vals if isinstance(v, (str, int)) and not isinstance(v, bool)), key=repr)
    if p in TS:
        op = rng.choice(['=', '!=', '<', '<=', '>', '>='])
        us_vals = [tsparse.us_of(v) for v in vals] or [1500000000000000]
        us = rng.choice(us_vals) + rng.choice([0, 0, 0, 1000, -1000] + ([] if ms_only else [1, -1]))
        if target is not None and rng.random() < 0.6:
            op = {'!=': '=', '<': '<=', '>': '>='}.get(op, op)
        if ms_only:
            v = {'$ts': tsparse.trunc_ms(us), 'd': 3}
        else:
            v = rng.choice([{'$ts': us, 'd': None}, {'$ts': us, 'd': 6}, {'$ts': us, 'd': 'min3'}, {'$dt': us}, {'$dt': us, 'off': rng.choice([330, -480, 60])}])
        return {'p': p, 'o': op, 'v': v}
    hit = rng.choice(vals) if vals and rng.random() < 0.75 else _near(rng, p, rng.choice(vals) if vals else 'x')
    if p in LISTY:
        op = rng.choice(['=', 'in', 'contains'])
    elif p in INT:
        op = rng.choice(['=', '!=', 'in', '<', '<=', '>', '>='])
        if not isinstance(hit, int):
            hit = 50
    else:
        op = rng.choice(['=', '=', '!=', 'in', '<', '<=', '>', '>='])
    if target is not None and rng.random() < 0.7:
        op = {'!=': '=', '<': '<=', '>': '>='}.get(op, op)
    if op == 'in':
        others = [rng.choice(vals) if vals and rng.random() < 0.6 else _near(rng, p, hit) for _ in range(rng.randrange(0, 3))]
        v = [hit] + others
        rng.shuffle(v)
    else:
        v = hit
    if p == 'type':
        if isinstance(v, list):
            v = [x for x in v if '_' not in x] or ['tool']
        elif '_' in v:
            v = 'tool'
    return {'p': p, 'o': op, 'v': v}


def gen_opt_filters(rng, pop):
    types = sorted({j['type'] for j in pop}) + ['tool', 'x-no-such']
    ids = sorted({j['id'] for j in pop}) + [C.mkid('tool', 990001), C.mkid(rng.choice(types[:-1]), 990002)]
    out = []
    for _ in range(rng.randrange(1, 5)):
        which = rng.choice(['type', 'id'])
        op = rng.choice(['=', '=', '!=', 'in'])
        src = types if which == 'type' else ids
        v = rng.choice(src)
        if op == 'in':
            v = rng.sample(src, rng.randrange(1, min(4, len(src)) + 1))
        elif rng.random() < 0.12:
            # a LIST as the value of = / != : a string never equals a list, so `=` holds for nothing and `!=` for everything -
            # whatever a directory-level shortcut makes of the list
            v = rng.sample(src, rng.randrange(1, min(3, len(src)) + 1))
        out.append({'p': which, 'o': op, 'v': v})
    if rng.random() < 0.3 and out:
        out.append(dict(rng.choice(out)))  # repeated filter
    return out


class C12(Profile):
    pid = 'C12'
    needs_disk = True
    owns_registries = True
    tiers = {'quick': 1500, 'thorough': 100000}
    wall_cap = {'quick': 1200, 'thorough': 6 * 3600}
    probes = ['member_filter_on_the_first_member_only', 'optimizer_filters', 'attached_to_source', 'attached_to_composite', 'composite_facade', 'empty_result',
              'nonempty_result', 'timestamp_respelled', 'datetime_value', 'contradictory_type_filters', 'law_intersection',
              'law_monotone', 'get_with_attached_filter', 'dotted_path', 'duplicate_filter', 'store_changed_between_queries', 'coarse_file_timestamps', 'nested_composites_both_filtered']
    rule = ('plans: a population of 3-25 object versions added identically to a MemoryStore and a FileSystemStore (simulated disk), then '
            '30-80 queries whose filters are generated from the population (all 8 operators, 17 property paths, hits and near misses, '
            'type/id optimiser mixes) and delivered as argument / attached to the source / attached to a composite; '
            'non-trivial = population non-empty AND >=1 query compared with the reference evaluator; distinct = distinct plan digests')
    state_measure = 'distinct (facade, operator, property kind, delivery path, empty/non-empty result) and optimiser (type/id x allow/deny) tuples'
    assumptions = ['filtereval.py (own evaluator) implements the documented filter semantics',
                   'filters are generated only inside the documented semantics (like-typed ordering, != on scalars, contains/in where element-equality and substring coincide)']
    components = dict(COMPONENTS_COMMON,
                      real=COMPONENTS_COMMON['real'] + ['stix2.datastore.filters', 'stix2.datastore.memory', 'stix2.datastore.filesystem',
                                                        'stix2.datastore.CompositeDataSource', 'tmpfs'],
                      simulated=COMPONENTS_COMMON['simulated'] + ['readdir order', 'file time stamps (disk-owned clock, plan-chosen granularity)'])

    def generate(self, rng, index, tier):
        with_unreg = rng.random() < 0.25
        kinds = KINDS + ([('unreg', 3)] if with_unreg else [])
        # knob (minority of the runs that hold dict-kept objects): timestamp filter values in free spellings / as datetimes
        # although dict-kept objects are present - the region of a known finding
        respell_on_dicts = with_unreg and rng.random() < 0.3
        cfg = {'m_allow_custom': True, 'fs_allow_custom': True, 'bundlify': rng.random() < 0.15, 'ms_only': with_unreg and not respell_on_dicts,
               'respell_on_dicts': respell_on_dicts, 'mtime_gran': rng.choice([1, 1, 4, 0]), 'early_parse': rng.random() < 0.3}
        n_ids = rng.randrange(2, 9)
        pool = SW.gen_pool(rng, index, n_ids, rng.choice([1, 2, 3, 4]), kinds, upper_ids=rng.choice([0, 0, 0.3, 1.0]))
        for e in pool:
            if e['kind'] == 'unreg':
                e['digits'] = 3
                e['versions'] = sorted({tsparse.trunc_ms(m) + 1000 * i for i, m in enumerate(e['versions'])})
            if e['kind'] == 'sdo' and rng.random() < 0.3:
                e['granular'] = True
            if e['kind'] in ('sdo', 'custom', 'unreg') and rng.random() < 0.4:
                e['xinfo'] = rng.randrange(1000)
            if e['kind'] in ('sdo', 'custom') and rng.random() < 0.3 and any(x['kind'] == 'sdo' for x in pool):
                pass
        ops = []
        pop = []
        items = [(k, j) for k in range(n_ids) for j in range(SW.n_versions(pool[k]))]
        rng.shuffle(items)
        items = items[:25]
        for k, j in items:
            ops.append({'op': 'add', 'k': k, 'j': j, 'as': rng.choice(['obj', 'dict'])})
            pop.append(content12(pool, k, j))
        for _ in range(rng.randrange(30, 81)):
            r = rng.random()
            if r < 0.25:
                fs = gen_opt_filters(rng, pop)
                tag = 'opt'
            else:
                target = rng.choice(pop) if pop and rng.random() < 0.7 else None
                fs = [gen_filter(rng, pop, cfg['ms_only'], target if rng.random() < 0.85 else None)
                      for _ in range(rng.choice([1, 1, 2, 2, 3, 4]))]
                if rng.random() < 0.15:
                    fs.append(dict(rng.choice(fs)))
                tag = 'gen'
            if rng.random() < 0.2:
                fs += gen_opt_filters(rng, pop)[:2]
            rng.shuffle(fs)
            for f in fs:
                f['via'] = U.weighted(rng, [('arg', 5), ('src', 2), ('comp', 2)])
            op = {'op': U.weighted(rng, [('query', 8), ('get', 1), ('all_versions', 1)]), 'facade': rng.choice(['M', 'F', 'C']),
                  'filters': fs, 'ls_key': rng.randrange(1000), 'tag': tag, 'law': rng.choice([None, None, 'split', 'grow'])}
            if op['op'] != 'query':
                op['k'] = rng.randrange(n_ids)
            if op['facade'] == 'C' and rng.random() < 0.3:
                op['nest'] = True
            ops.append(op)
        if rng.random() < 0.4 and len(items) > 2:
            # history: part of the population arrives BETWEEN the queries (in the original order), so that queries run
            # before and after a store changed under sources that have already been read
            n_add = len(items)
            late = ops[n_add - max(1, n_add // 3):n_add]
            rest = ops[:n_add - len(late)] + ops[n_add:]
            pos = sorted(rng.randrange(n_add - len(late), len(rest) + 1) for _ in late)
            for off, (at, a) in enumerate(zip(pos, late)):
                rest.insert(at + off, dict(a, late=True))
            ops = rest
        if rng.random() < 0.25:
            # the environment: entries in the store directory that no add produced (stray directories, a pre-created skeleton)
            for _ in range(rng.randrange(1, 4)):
                ops.insert(rng.randrange(len(ops) + 1), {'op': 'stray', 'k': rng.randrange(n_ids), 'n': rng.randrange(100),
                                                         'where': rng.choice(['type', 'type', 'type', 'skeleton', 'root'])})
        if rng.random() < 0.2:
            # the store directory is named relative to the working directory, which something unrelated changes between the queries
            cfg['rel_path'] = True
            for _ in range(rng.randrange(1, 3)):
                ops.insert(rng.randrange(len(ops) + 1), {'op': 'chdir', 'n': rng.randrange(100)})
        return {'config': cfg, 'pool': pool, 'ops': ops}

    def simplify(self, op):
        out = []
        fs = op.get('filters') or []
        if len(fs) > 1:
            for i in range(len(fs)):
                out.append(dict(op, filters=fs[:i] + fs[i + 1:]))
        for i, f in enumerate(fs):
            if f.get('via') != 'arg':
                out.append(dict(op, filters=fs[:i] + [dict(f, via='arg')] + fs[i + 1:]))
        if op.get('law'):
            out.append(dict(op, law=None))
        if op.get('facade') == 'C':
            out.append(dict(op, facade='M'))
            out.append(dict(op, facade='F'))
        return out

    # ------------------------------------------------------------------ execution
    def execute(self, plan, world):
        import stix2
        sw = SW.StoreWorld(world, plan, 'C12')
        self.world = world
        self.raw = {'M': {}, 'F': {}}
        cds = stix2.CompositeDataSource()
        cds.add_data_sources([sw.M.source, sw.F.source])
        sw.cds = cds
        sw.cds_rev = stix2.CompositeDataSource()          # the same two members attached in the other order
        sw.cds_rev.add_data_sources([sw.F.source, sw.M.source])
        for i, op in enumerate(plan['ops']):
            world.op_index = i
            world.stat('op:' + op['op'])
            if op['op'] == 'add':
                self.op_add(sw, world, op)
            elif op['op'] == 'stray':
                sw.stray(op['k'], op['n'], op['where'])
            elif op['op'] == 'chdir':
                sw.chdir(op['n'])
            else:
                self.op_query(sw, world, op)

    def op_add(self, sw, world, op):
        k = op['k'] % len(sw.pool)
        j = op['j'] % SW.n_versions(sw.pool[k])
        d = content12(sw.pool, k, j)
        for store in ('M', 'F'):
            if op['as'] == 'obj' and sw.pool[k]['kind'] != 'unreg':
                o = call(sw.stix2.parse, sw.with_offset_datetimes(C._copy(d), sw.pool[k], k + j), allow_custom=True)
                if not o.ok:
                    world.stat('build_failed')
                    return
                val = o.value
            else:
                val = C._copy(d)
            out = call(sw.store(store).add, val)
            key = SW.key_of(d)
            if out.ok:
                self.raw[store][key] = d
                world.changed()
            elif key not in self.raw[store]:
                world.stat('add_raised')
        if op.get('late'):
            world.probe('store_changed_between_queries')
        world.log(op='add', key=SW.kstr(SW.key_of(d)))

    def mkfilter(self, sw, f):
        v = f['v']
        if isinstance(v, dict) and '$ts' in v:
            d = v.get('d')
            if d == 'min3':
                v = tsparse.fmt(v['$ts'], min_digits=3)
            elif d is None:
                v = tsparse.fmt(v['$ts'])
            else:
                v = tsparse.fmt(v['$ts'], digits=d)
        elif isinstance(v, dict) and '$dt' in v:
            import pytz
            off = v.get('off')
            v = dt.datetime(1970, 1, 1, tzinfo=pytz.UTC) + dt.timedelta(microseconds=v['$dt'])
            if off:
                v = v.astimezone(dt.timezone(dt.timedelta(minutes=off)))      # the same instant, given with a UTC offset
        return sw.stix2.Filter(f['p'], f['o'], v)

    def ref_triple(self, f):
        v = f['v']
        if isinstance(v, dict) and ('$ts' in v or '$dt' in v):
            us = v.get('$ts', v.get('$dt'))
            if v.get('d') == 3:
                us = tsparse.trunc_ms(us)
            v = tsparse.fmt(us, digits=6)
        return (f['p'], f['o'], v)

    def run(self, sw, facade, arg, src, comp, what, sid=None, nest=False, f_only=False):
        """Attach, call, detach.  Returns Outcome.  f_only: composite with the filesystem member FIRST, the `src` filters attached
        to that member alone (the memory member answers for everything that passes the query and the composite's filters)."""
        if nest and facade == 'C':
            # two layers: the `src` filters sit on an INNER composite of the two sources, the `comp` filters on the outer one
            # that federates it; every one of them applies
            s = sw.stix2
            inner = s.CompositeDataSource()
            inner.add_data_sources([sw.M.source, sw.F.source])
            for f in src:
                call(inner.filters.add, f)
            outer = s.CompositeDataSource()
            outer.add_data_sources([inner])
            for f in comp:
                call(outer.filters.add, f)
            self.world.probe('nested_composites_both_filtered' if src and comp else 'nested_composites')
            if what == 'query':
                return call(outer.query, list(arg))
            if what == 'get':
                return call(outer.get, sid)
            return call(outer.all_versions, sid)
        sources = {'M': [sw.M.source], 'F': [sw.F.source], 'C': [sw.M.source, sw.F.source]}[facade]
        if facade != 'C':
            src = src + comp
            comp = []
        added = []
        failed = None
        try:
            cds = sw.cds_rev if f_only else sw.cds
            if f_only:
                sources = [sw.F.source]
            for fset, fl in [(s.filters, src) for s in sources] + [(cds.filters, comp)]:
                for f in fl:
                    if f not in list(fset):
                        a = call(fset.add, f)
                        added.append((fset, f))
                        # a filter set holds what was added to it, whatever was added and removed before (history-dependent state)
                        if not a.ok or f not in list(fset):
                            failed = Violation('attach', 'C12.attach/added-filter-not-in-set',
                                               dict(filter=repr(f), outcome=a.tag, held=[repr(x) for x in fset][:6]))
                            raise failed
            target = {'M': sw.M, 'F': sw.F, 'C': cds}[facade]
            if what == 'query':
                return call(target.query, list(arg))
            if what == 'get':
                return call(target.get, sid)
            return call(target.all_versions, sid)
        finally:
            for fset, f in added:
                r = call(fset.remove, f)
                if failed is None and (not r.ok or f in list(fset)):
                    raise Violation('attach', 'C12.detach/removed-filter-still-in-set', dict(filter=repr(f), outcome=r.tag))

    def op_query(self, sw, world, op):
        fs = op['filters']
        built = [(f, self.mkfilter(sw, f)) for f in fs]
        arg = [b for f, b in built if f.get('via', 'arg') == 'arg']
        src = [b for f, b in built if f.get('via') == 'src']
        comp = [b for f, b in built if f.get('via') == 'comp']
        facade = op['facade']
        what = op['op']
        sid = SW.pool_id(sw.pool, op['k']) if 'k' in op else None
        triples = [self.ref_triple(f) for f in fs]
        pop = {}
        for st in (('M', 'F') if facade == 'C' else (facade,)):
            pop.update(self.raw[st])
        if what != 'query':
            # attached filters only (oracle 3)
            triples = [self.ref_triple(f) for f in fs if f.get('via', 'arg') != 'arg']
            arg = []
        f_only = (facade == 'C' and not op.get('nest') and what in ('query', 'all_versions') and bool(src) and bool(comp)
                  and op.get('ls_key', 0) % 3 == 1)
        sw.disk.begin_op(op.get('ls_key', 0))
        out = self.run(sw, facade, arg, src, comp, what, sid, nest=bool(op.get('nest')), f_only=f_only)
        sw.disk.end_op()
        if f_only:
            world.probe('member_filter_on_the_first_member_only')
        if src:
            world.probe('attached_to_source')
        if comp and facade == 'C':
            world.probe('attached_to_composite')
        if facade == 'C':
            world.probe('composite_facade')
        if any('.' in f['p'] for f in fs):
            world.probe('dotted_path')
        if op.get('tag') == 'opt':
            world.probe('optimizer_filters')
        if len({(f['p'], f['o'], repr(f['v'])) for f in fs}) < len(fs):
            world.probe('duplicate_filter')
        tvals = [f['v'] for f in fs if f['p'] == 'type' and f['o'] == '=']
        if len(set(map(repr, tvals))) > 1:
            world.probe('contradictory_type_filters')
        for f in fs:
            if isinstance(f['v'], dict) and f['v'].get('d') in (None, 6, 'min3') and '$ts' in f['v']:
                world.probe('timestamp_respelled')
            if isinstance(f['v'], dict) and '$dt' in f['v']:
                world.probe('datetime_value')
        desc = [(f['p'], f['o'], f.get('via')) for f in fs]
        ts_filters = [f for f in fs if f['p'] in TS]
        has_dicts = any(k[0].startswith('x-unreg-thing--') for k in pop)
        if not out.ok:
            if (isinstance(out.exc, TypeError) and has_dicts and sw.cfg.get('respell_on_dicts')
                    and any(isinstance(f['v'], dict) and '$dt' in f['v'] for f in ts_filters)):
                raise Violation('query-total', 'C12.query/dict-kept-timestamp-vs-datetime-filter-raises',
                                dict(exc=repr(out.exc)[:300], filters=desc))
            raise Violation('query-total', 'C12.%s-raised/%s/%s' % (what, facade, type(out.exc).__name__),
                            dict(exc=repr(out.exc)[:300], filters=desc))
        try:
            if f_only:
                # each member answers for what IT holds under the filters that apply to IT
                no_src = [self.ref_triple(f) for f in fs if f.get('via') != 'src' and (what == 'query' or f.get('via', 'arg') != 'arg')]
                exp_keys = ({k for k, j in self.raw['M'].items() if FE.matches(j, no_src)} |
                            {k for k, j in self.raw['F'].items() if FE.matches(j, triples)})
            else:
                exp_keys = {k for k, j in pop.items() if FE.matches(j, triples)}
        except TypeError:
            world.stat('reference_unlike_types_skipped')
            return
        if sw.cfg.get('respell_on_dicts') and ts_filters and has_dicts and what in ('query', 'all_versions'):
            obs0 = set(SW.obj_key(o) for o in out.value)
            want0 = exp_keys if what == 'query' else {k for k in exp_keys if k[0] == sid}
            wrong = obs0 ^ want0
            if wrong and all(k[0].startswith('x-unreg-thing--') for k in wrong):
                # verified cause: only dict-kept objects are answered wrongly, and a timestamp filter is present
                raise Violation('query-exact', 'C12.query/dict-kept-timestamp-compared-as-text',
                                dict(filters=desc, wrong=[SW.kstr(k) for k in sorted(wrong, key=repr)[:4]]))
        if what == 'query':
            obs = [SW.obj_key(o) for o in out.value]
            self.cmp_keys(world, 'query', facade, obs, exp_keys, desc)
            for f in fs:
                kind = 'ts' if f['p'] in TS else 'int' if f['p'] in INT else 'list' if f['p'] in LISTY else 'str'
                world.state(facade, f['o'], kind, f.get('via'), bool(exp_keys))
            if op.get('tag') == 'opt':
                world.state('opt', tuple(sorted((f['p'], f['o']) for f in fs)), bool(exp_keys))
            world.probe('nonempty_result' if exp_keys else 'empty_result')
            world.log(op='query', facade=facade, n=len(obs), filters=desc)
            if op.get('law') and len(built) >= 2 and not f_only:
                self.laws(sw, world, op, built, facade, set(obs))
        elif what == 'all_versions':
            obs = [SW.obj_key(o) for o in out.value]
            self.cmp_keys(world, 'all_versions', facade, obs, {k for k in exp_keys if k[0] == sid}, desc)
            world.log(op='all_versions', facade=facade, n=len(obs))
        else:
            world.probe('get_with_attached_filter')
            world.compared()
            dict_ts = (sw.cfg.get('respell_on_dicts') and sid.startswith('x-unreg-thing--')
                       and any(f['p'] in TS for f in fs if f.get('via', 'arg') != 'arg'))
            if out.value is not None:
                k = SW.obj_key(out.value)
                if k[0] != sid or k not in pop:
                    raise Violation('attached-filters', 'C12.get/not-stored', dict(got=SW.kstr(k), filters=desc))
                if k not in exp_keys and dict_ts:
                    raise Violation('query-exact', 'C12.query/dict-kept-timestamp-compared-as-text', dict(filters=desc, got=SW.kstr(k), via='get'))
                if k not in exp_keys:
                    raise Violation('attached-filters', 'C12.get/violates-attached-filter/%s' % facade,
                                    dict(got=SW.kstr(k), filters=desc))
            else:
                cands = {k for k in exp_keys if k[0] == sid}
                allv = {k for k in pop if k[0] == sid}
                if cands and cands == allv and dict_ts:
                    raise Violation('query-exact', 'C12.query/dict-kept-timestamp-compared-as-text', dict(filters=desc, via='get-none'))
                if cands and cands == allv:
                    raise Violation('attached-filters', 'C12.get/none-although-all-versions-pass/%s' % facade,
                                    dict(id=sid, filters=desc))
            world.log(op='get', facade=facade, got=out.value is not None)

    def cmp_keys(self, world, what, facade, obs, exp_keys, desc):
        world.compared()
        if len(obs) != len(set(obs)):
            raise Violation('query-exact', 'C12.%s/duplicate/%s' % (what, facade), dict(filters=desc))
        obs = set(obs)
        if obs != exp_keys:
            miss, extra = exp_keys - obs, obs - exp_keys
            cause = 'missing' if miss and not extra else 'extra' if extra and not miss else 'wrong-set'
            ops_ = '+'.join(sorted({'%s:%s' % (p if p in ('type', 'id') else 'prop', o) for p, o, _ in desc}))
            raise Violation('query-exact', 'C12.%s/%s/%s' % (what, cause, facade),
                            dict(filters=desc, missing=[SW.kstr(k) for k in sorted(miss, key=repr)[:4]],
                                 unexpected=[SW.kstr(k) for k in sorted(extra, key=repr)[:4]], shape=ops_))

    def laws(self, sw, world, op, built, facade, full):
        """Model-free laws: conjunction = intersection of the parts; adding a filter never grows the result."""
        bs = [b for _, b in built]
        if op['law'] == 'split':
            h = len(bs) // 2
            a = self.run(sw, facade, bs[:h], [], [], 'query')
            b = self.run(sw, facade, bs[h:], [], [], 'query')
            if a.ok and b.ok:
                inter = {SW.obj_key(o) for o in a.value} & {SW.obj_key(o) for o in b.value}
                world.probe('law_intersection')
                if inter != full:
                    raise Violation('law', 'C12.law/conjunction-not-intersection/%s' % facade,
                                    dict(filters=[(f['p'], f['o']) for f, _ in built]))
        else:
            a = self.run(sw, facade, bs[:-1], [], [], 'query')
            if a.ok:
                world.probe('law_monotone')
                if not full <= {SW.obj_key(o) for o in a.value}:
                    raise Violation('law', 'C12.law/filter-grew-result/%s' % facade,
                                    dict(filters=[(f['p'], f['o']) for f, _ in built]))


def content12(pool, k, j):
    d = SW.content(pool, k, j)
    e = pool[k % len(pool)]
    if e.get('xinfo') is not None:
        n = e['xinfo'] + j
        tags = ['gold', 'silver', 'bronze', 'tin', 'lead']
        d['x_info'] = {'level': n % 7, 'tags': [tags[n % 5], tags[(n // 5 + 1 + n) % 5]][:1 + n % 2],
                       'inner': {'codes': ['c%d' % (n % 4), 'k%d' % (n % 3)], 'note': 'n'}}
    if e['id_n'] % 11 == 5 and isinstance(d.get('name'), str):
        # a NAME that looks like a timestamp, spelled differently from version to version: it is text, and compares as text
        d['name'] = ['2021-03-04T05:06:07Z', '2021-03-04T05:06:07.000Z', '2021-03-04T05:06:07.0Z', '2021-03-04T05:06:08Z'][j % 4]
    if e.get('granular') and 'labels' in d:
        d['granular_markings'] = [{'marking_ref': C.TLP['amber'], 'selectors': ['labels']},
                                  {'marking_ref': C.STATEMENT_MARKINGS[0], 'selectors': ['type', 'labels.[0]']}]
    return d


PROFILE = C12()
