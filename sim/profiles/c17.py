"""C17 - bad input is reported only through the library's error family (stated scope: corruption as a
fault at the data seams, and failure atomicity of registries and stores).

A valid object is damaged by 1-3 wrong-kind replacements (null, number, string, bool, list, object,
nested junk) at any depth - always leaving it JSON-decodable - in flight to parse / constructors /
new_version / Bundle / store add, in the text or stream given to parse, in a file already stored by
the filesystem sink (then read back through FileSystemSource), or in a bundle saved by the memory
store (then loaded).  Oracle: the call terminates and returns or raises STIXError / ValueError /
TypeError; after a failing call registries equal their snapshot and stores equal their model.
"""
import io
import json
import os

from . import Profile, COMPONENTS_COMMON
from . import c13 as C13
from .. import catalog as C
from .. import common as U
from .. import storeworld as SW
from .. import tsparse
from ..core import Violation, call

ENTRIES = ['parse_dict', 'parse_text', 'parse_stream', 'construct', 'new_version_changes', 'bundle',
           'bundle_dict', 'mem_add', 'mem_add_list', 'fs_add', 'fs_add_text', 'fs_read', 'mem_load', 'parse_observable', 'env_add', 'late_registered', 'fs_add_bundle', 'parse_observable20']
# The error-family clause is stated for parsing and constructing; for store entry points only exceptions that
# come out of the parse/construct step are judged (innermost library frame outside stix2/datastore), and the
# failure-atomicity clause is checked for every failing call.
# entries that are judged for the error family whatever frame raises: direct parsing / construction, and reading a stored *.json file
# back through FileSystemSource (the source's job there IS parsing JSON text it is given by the disk)
PARSE_ENTRIES = ('parse_dict', 'parse_text', 'parse_stream', 'construct', 'new_version_changes', 'bundle', 'bundle_dict', 'parse_observable',
                 'late_registered', 'parse_observable20', 'fs_read')
JUNK = {
    'null': [None],
    'number': [0, -1, 1.5, 10 ** 30, 7, 10 ** 400, -(10 ** 310), 1e308, 5e-324],
    'string': ['', 'junk', '[]', '2017-01-01T00:00:00Z', 'identity--00000000-0000-4000-8000-000000000000'],
    'bool': [True, False],
    'list': [[], [1], [[]], [{}], ['a', None], [{'type': 'file'}]],
    'object': [{}, {'a': 1}, {'type': 'x'}, {'0': {}}, {'type': 'file', 'name': 5}],
    'nested': [{'a': [{'b': None}]}, [[[[]]]], {'extensions': {'x': []}}, {'objects': [{}]}],
    'empty': ['', [], {}, ' ', '\u0000'],
    # the right JSON kind, an unusual spelling: timestamps as other software writes them
    'odd_ts': ['2017-01-20T00:00:00.0000000Z', '2017-01-20T00:00:00.123456789Z', '2017-01-20T00:00:00.000+00:00', '2017-01-20T01:00:00.000+01:00',
               '2017-01-20T00:00:00.000', '2017-01-20 00:00:00Z', '2017-01-20T00:00:00.Z', '20170120T000000Z', '2017-01-20T00:00:00,5Z',
               '2017-01-20T24:00:00Z', '2017-01-20T00:00:60Z', '0000-01-01T00:00:00Z', '10000-01-01T00:00:00Z', '2017-02-30T00:00:00Z',
               '2017-01-20T00:00:00.000z', '2017-01-20t00:00:00Z', ' 2017-01-20T00:00:00Z', '2017-01-20T00:00:00Z\n', '2017-W03-5T00:00:00Z'],
}


def safe_repr(e):
    try:
        return repr(e)[:300]
    except RecursionError:
        return '<%s: message too deeply nested to print>' % type(e).__name__


def kind_of_json(v):
    if v is None:
        return 'null'
    if isinstance(v, bool):
        return 'bool'
    if isinstance(v, (int, float)):
        return 'number'
    if isinstance(v, str):
        return 'string'
    if isinstance(v, list):
        return 'list'
    return 'object'


def sites(j, path=()):
    """Every address (tuple of keys/indices) of a value inside j, any depth."""
    out = []
    if isinstance(j, dict):
        for k in sorted(j):      # not insertion order: library-written JSON may order members by hash seed
            out.append(path + (k,))
            out.extend(sites(j[k], path + (k,)))
    elif isinstance(j, list):
        for i, v in enumerate(j):
            out.append(path + (i,))
            out.extend(sites(v, path + (i,)))
    return out


def put(j, path, val):
    cur = j
    for p in path[:-1]:
        cur = cur[p]
    cur[path[-1]] = val


def get_at(j, path):
    for p in path:
        j = j[p]
    return j


INJECT_KEYS = ['a_matrix', 'x_matrix', 'custom_properties', 'extensions', 'granular_markings', 'object_marking_refs', 'definition', 'definition_type', 'objects',
               'spec_version', 'extension_type', 'x_new', 'hashes', 'modified', 'revoked', 'external_references', 'id', 'type',
               'created_by_ref', 'labels', 'lang', 'selectors', 'marking_ref', 'tlp', 'statement', 'object_refs', 'pattern_type',
               'ntfs-ext', 'archive-ext', 'windows-pebinary-ext', 'socket-ext', 'extension-definition--00000000-0000-4000-8000-000000000000',
               # member names that are legal JSON and unusual as property names
               '', ' ', '0', 'é', '_', 'x' * 300, 'a.b', 'A']
INJECT_VALUES = [10 ** 400, [[1, [2]]], {'a': [[1], [2, [3]]]}, None, 0, '', 'junk', [], {}, False, True, {'extension_type': 'toplevel-property-extension'},
                 {'extension_type': 'property-extension'}, {'extension_type': 'new-sdo'}, 'tlp', 'statement', {'tlp': 'white'},
                 {'statement': 's'}, [{}], '2.1', '2.0', 2.1, ['type'], {'ntfs-ext': {'extension_type': 'toplevel-property-extension'}}]


def dict_sites(j, path=()):
    """Addresses of every dict inside j (the root included)."""
    out = []
    if isinstance(j, dict):
        out.append(path)
        for k in sorted(j):
            out.extend(dict_sites(j[k], path + (k,)))
    elif isinstance(j, list):
        for i, v in enumerate(j):
            out.extend(dict_sites(v, path + (i,)))
    return out


DEEP_LEVELS = [120, 300, 480, 650, 800, 975, 1100, 1400]
# variant number -> index into DEEP_LEVELS: the first len(DEEP_LEVELS) entries are the identity (the simplifier relies on it), the
# rest give extra weight to the band at and beyond the interpreter's recursion limit, where every walk with one frame per level fails
DEEP_PICK = [0, 1, 2, 3, 4, 5, 6, 7, 5, 6, 7, 7]


def deep_index(var_n):
    return DEEP_PICK[var_n % len(DEEP_PICK)]


def deep_value(var_n, site_n):
    """A JSON value nested DEEP_LEVELS[..] levels deep (objects, arrays or alternating), built without recursion.
    All of these depths are decodable by json.loads in this interpreter, so they are inside the property's
    'any JSON-decodable input'."""
    levels = DEEP_LEVELS[deep_index(var_n)]
    shape = site_n % 3
    v = [1, 'leaf', None, {}][site_n // 3 % 4]
    for n in range(levels):
        if shape == 0 or (shape == 2 and n % 2):
            v = {'k': v}
        else:
            v = [v]
    return v, levels


def corrupt(j, picks):
    """Apply wrong-kind replacements.  picks = [(site number, kind name, variant number)].  Returns (copy, description).
    'deep' picks go last: nothing in here walks into a deeply nested value (sites() is recursive)."""
    j = C._copy(j)
    desc = []
    picks = [p for p in picks if p[1] != 'deep'] + [p for p in picks if p[1] == 'deep'][:1]
    for site_n, kind, var_n in picks:
        ss = sites(j) if kind != 'deep' or not desc or desc[-1]['kind'] != 'deep' else []
        if not ss:
            break
        if kind == 'deep':
            val, levels = deep_value(var_n, site_n)
            if site_n % 5 == 4 and j.get('spec_version') == '2.1' and isinstance(j.get('extensions', {}), dict):
                # content of an unregistered property extension: kept as given, and id-contributing for some observables
                key = 'extension-definition--' + C.mkuuid(7, 'c17deep')
                j.setdefault('extensions', {})[key] = {'extension_type': 'property-extension', 'deep': val}
                path = ('extensions', key, 'deep')
                was = '-'
            elif site_n % 5 < 2:
                ds = dict_sites(j)
                dpath = ds[site_n % len(ds)]
                key = INJECT_KEYS[(site_n // 7 + var_n) % len(INJECT_KEYS)]
                (get_at(j, dpath) if dpath else j)[key] = val
                path = dpath + (key,)
                was = '-'
            else:
                path = ss[site_n % len(ss)]
                was = kind_of_json(get_at(j, path))
                put(j, path, val)
            named = [p for p in path if isinstance(p, str)]
            desc.append(dict(path='.'.join(str(p) for p in path), prop=(named[-1] if named else '?'), depth=len(path), kind='deep',
                             was=was, levels=levels))
            continue
        if kind in ('inject', 'remove'):
            ds = dict_sites(j)
            dpath = ds[site_n % len(ds)]
            target = get_at(j, dpath) if dpath else j
            if kind == 'remove':
                if not target:
                    continue
                key = sorted(target)[var_n % len(target)]
                del target[key]
                desc.append(dict(path='.'.join(str(p) for p in dpath + (key,)), prop=key, depth=len(dpath) + 1, kind='removed', was='-'))
            else:
                key = INJECT_KEYS[(site_n // 7 + var_n) % len(INJECT_KEYS)]
                val = INJECT_VALUES[(site_n // 3 + var_n * 5) % len(INJECT_VALUES)]
                target[key] = C._copy(val)
                desc.append(dict(path='.'.join(str(p) for p in dpath + (key,)), prop=key, depth=len(dpath) + 1,
                                 kind='injected-' + kind_of_json(val), was='-'))
            continue
        # one pick in seven goes to a property that only a registered extension validates, when the object has one
        hot = [p for p in ss if p and p[-1] in ('rank', 'score', 'toxicity')]
        path = hot[site_n % len(hot)] if hot and site_n % 7 == 0 else ss[site_n % len(ss)]
        if kind == 'odd_ts':
            tss = [p for p in ss if isinstance(get_at(j, p), str) and len(get_at(j, p)) >= 20 and get_at(j, p)[4:5] == '-' and get_at(j, p).endswith('Z')]
            if tss:
                path = tss[site_n % len(tss)]
        old = get_at(j, path)
        k = kind
        if kind_of_json(old) == ('list' if k == 'nested' else k) and k not in ('nested', 'empty'):
            k = {'null': 'number', 'number': 'string', 'string': 'number', 'bool': 'object', 'list': 'object', 'object': 'list'}[k]
        val = JUNK[k][var_n % len(JUNK[k])]
        put(j, path, C._copy(val))
        named = [p for p in path if isinstance(p, str)]
        desc.append(dict(path='.'.join(str(p) for p in path), prop=(named[-1] if named else '?'), depth=len(path), kind=k,
                         was=kind_of_json(old)))
    return j, desc


def base_object(op):
    """A valid JSON object chosen by the plan."""
    src = op['src']
    n = op['n']
    if src == 'nested':
        d = C._copy(C13.NESTED[op['name']])
        if d['type'] in ('observed-data', 'language-content', 'x-unreg-thing'):
            d['id'] = C.mkid(d['type'], n)
            d['created'] = d['modified'] = '2017-01-01T00:00:00.000Z'
            if op.get('gm'):
                d['granular_markings'] = [{'marking_ref': C.TLP['amber'], 'selectors': ['type', 'modified']}]
        return d
    if src == 'sco':
        minimal, rich = C.SCO21[op['name']][:2]
        d = {'type': op['name'], 'spec_version': '2.1', 'id': C.mkid(op['name'], n)}
        if op.get('gm'):
            del d['id']          # let the library derive the deterministic id
        unreg = {'extension-definition--' + C.mkuuid(6, 'c17sco'): {'extension_type': 'property-extension', 'rank': 6, 'tags': ['a']}}
        if n % 5 == 3:
            # a thin object: the required properties only, next to an extension the library has no class for
            d.update(C._copy(minimal))
            d['extensions'] = dict(C._copy(rich).get('extensions', {}) if n % 2 else {}, **unreg)
        elif n % 5 == 4:
            # described by its extensions alone (legal for a process; other types refuse it for want of a required property)
            ext = C._copy(rich).get('extensions', {}) if n % 3 else {}
            if n % 2 or not ext:
                ext.update(unreg)
            d['extensions'] = ext
        else:
            d.update(C._copy(minimal))
            d.update(C._copy(rich))
        return d
    if src == 'marking':
        if n % 2:
            colour = ['white', 'green', 'amber', 'red'][n // 2 % 4]
            d = {'type': 'marking-definition', 'id': C.TLP[colour], 'created': '2017-01-20T00:00:00.000Z', 'definition_type': 'tlp',
                 'definition': {'tlp': colour}}
            if op['ver'] == '2.1':
                d.update(spec_version='2.1', name='TLP:' + colour.upper())
                if n % 3 == 0:
                    d['extensions'] = {'extension-definition--' + C.mkuuid(3, 'c17md'): {'extension_type': 'property-extension', 'rank': 1}}
            return d
        d = dict(C.MARKING_STATEMENT_21 if op['ver'] == '2.1' else C.MARKING_STATEMENT_20)
        d.update(id=C.mkid('marking-definition', n), created='2017-01-20T00:00:00.000Z')
        return C._copy(d)
    ver, typ = op['ver'], op['name']
    minimal, rich = C.template(ver, typ)[:2]
    common = C.COMMON_OPT_20 if ver == '2.0' else C.COMMON_OPT_21
    d = C.build(ver, typ, n, 1500000000000000, 1500000001000000, tuple(rich), tuple(common))
    if op.get('gm'):
        d['granular_markings'] = [{'marking_ref': C.TLP['amber'], 'selectors': ['type', 'created']}]
        if ver == '2.1' and n % 3 == 1:
            # two registered toplevel-property extensions on one object (registered by the world, see storeworld.register_customs)
            a, b = 'extension-definition--' + C.mkuuid(1, 'sim-toplevel'), 'extension-definition--' + C.mkuuid(2, 'sim-toplevel')
            exts = [(a, {'extension_type': 'toplevel-property-extension'}), (b, {'extension_type': 'toplevel-property-extension'})]
            if n % 2:
                exts.reverse()
            d['extensions'] = dict(exts)
            d['rank'] = 1
            d['score'] = 2
        if ver == '2.1' and n % 6 == 4:
            # one UNREGISTERED toplevel-property extension next to a registered one, in either member order
            a, u = 'extension-definition--' + C.mkuuid(1, 'sim-toplevel'), 'extension-definition--' + C.mkuuid(9, 'c17-unreg-toplevel')
            exts = [(u, {'extension_type': 'toplevel-property-extension'}), (a, {'extension_type': 'toplevel-property-extension'})]
            if n % 4 < 2:
                exts.reverse()
            d['extensions'] = dict(exts)
            d['rank'] = 3
            d['unreg_top'] = 'v'
        if ver == '2.1' and n % 3 == 0:
            # content the library keeps as-is: an unregistered property extension
            d['extensions'] = {'extension-definition--' + C.mkuuid(5, 'c17ext'): {'extension_type': 'property-extension', 'rank': 5,
                                                                                 'tags': ['a', 'b'], 'grid': {'rows': [1, 2]}}}
    return d


class C17(Profile):
    pid = 'C17'
    needs_disk = True
    owns_registries = True
    hang_is_violation = True
    tiers = {'quick': 2500, 'thorough': 250000}
    wall_cap = {'quick': 1200, 'thorough': 6 * 3600}
    probes = ['corruption_at_depth>=3', 'corruption_in_extension', 'corruption_in_embedded_object', 'stored_file_corrupted',
              'saved_bundle_corrupted', 'stream_input', 'call_raised_library_error', 'call_returned', 'atomicity_checked_store',
              'atomicity_checked_registry', 'list_add_prefix_checked', 'multi_site_corruption', 'observed_data_member_corrupted', 'two_toplevel_extensions',
              'stored_file_replaced_by_non_object', 'deep_nesting_injected', 'type_registered_after_first_parse', 'failing_type_registration', 'member_order_varied', 'bundle_given_to_filesystem_sink', 'observable_2.0_with_reference_scope']
    rule = ('plans: 30-80 calls; each takes a valid object (every SDO/SRO type of both versions, 2.1 SCOs, SCOs with nested extensions, 2.0 '
            'observed-data with members, marking definitions, language-content), applies 1-3 wrong-kind replacements at plan-chosen sites of any '
            'depth (incl. values nested 120-1400 levels, i.e. up to what json.loads decodes in this interpreter), and delivers it through one of 16 entry points (parse of dict/text/stream, constructor, new_version, Bundle, '
            'memory/filesystem add, stored-file corruption read back through FileSystemSource, saved-bundle corruption loaded back, '
            'parse_observable, marking functions, Environment.add). non-trivial = >=1 corrupted call judged AND >=1 store/registry atomicity '
            'comparison after a failing call; distinct = distinct plan digests')
    state_measure = 'distinct (entry point, object type, corrupted property, wrong kind, outcome class) tuples'
    assumptions = ['scope is corruption-as-fault and failure atomicity, not "all JSON values"; whether a *returned* object is fully validated is C02\'s question and is not asserted',
                   'injected nesting goes up to 1400 levels (json.loads of this interpreter gives up between 1400 and 1500); deeper text is not JSON-decodable here and so outside the property',
                   "DataSourceError from the filesystem sink for an already stored (id, modified) is the documented refusal to overwrite, not an escape"]
    components = dict(COMPONENTS_COMMON,
                      real=COMPONENTS_COMMON['real'] + ['stix2.parsing', 'stix2.base', 'stix2.properties', 'stix2.versioning', 'stix2.datastore.memory',
                                                        'stix2.datastore.filesystem', 'tmpfs'],
                      simulated=COMPONENTS_COMMON['simulated'] + ['in-flight / stored-byte / stream corruption', 'readdir order', 'file time stamps (disk-owned clock, plan-chosen granularity)'])

    # ------------------------------------------------------------------ generation
    def generate(self, rng, index, tier):
        ops = []
        kinds = sorted(JUNK) + ['inject', 'inject', 'remove']
        if rng.random() < 0.5:
            kinds = kinds + ['deep', 'deep']       # deep nesting: in half of the runs, about one pick in seven
        entries = U.swarm_weights(rng, ENTRIES, keep=0.75, must=('parse_dict',))
        for n in range(rng.randrange(30, 81)):
            src = U.weighted(rng, [('sdo', 6), ('nested', 3), ('sco', 2), ('marking', 1.5)])
            ver = rng.choice(['2.0', '2.1'])
            if src == 'sdo':
                name = rng.choice(C.versioned_types(ver))
            elif src == 'nested':
                name = rng.choice(sorted(C13.NESTED))
            elif src == 'sco':
                name = rng.choice(sorted(C.SCO21))
            else:
                name = 'marking-definition'
            op = {'op': U.weighted(rng, entries), 'src': src, 'ver': ver, 'name': name, 'n': index * 100 + n, 'gm': rng.random() < 0.3,
                  'picks': [[rng.randrange(10 ** 6), rng.choice(kinds), rng.randrange(1000)] for _ in range(rng.choice([1, 1, 1, 2, 3]))],
                  'allow_custom': rng.random() < 0.5, 'ls_key': rng.randrange(100), 'pos': rng.randrange(3)}
            ops.append(op)
        return {'config': {'m_allow_custom': True, 'fs_allow_custom': True}, 'pool': [], 'ops': ops}

    def simplify(self, op):
        out = []
        if len(op.get('picks', [])) > 1:
            for i in range(len(op['picks'])):
                out.append(dict(op, picks=op['picks'][:i] + op['picks'][i + 1:]))
        if op.get('gm'):
            out.append(dict(op, gm=False))
        for i, pk in enumerate(op.get('picks', [])):
            if pk[1] == 'deep' and deep_index(pk[2]) > 0:
                # the same site, one step less deep
                out.append(dict(op, picks=op['picks'][:i] + [[pk[0], 'deep', deep_index(pk[2]) - 1]] + op['picks'][i + 1:]))
        return out

    # ------------------------------------------------------------------ execution
    def execute(self, plan, world):
        import stix2
        self.s = stix2
        sw = SW.StoreWorld(world, dict(plan, pool=[{'kind': 'sdo', 'ver': '2.1', 'type': 'identity', 'id_n': 1, 'versions': [0], 'created_us': 0}]), 'C17')
        self.sw = sw
        self.world = world
        self.allowed = (stix2.exceptions.STIXError, ValueError, TypeError)
        self.shape0 = world.reg.shape()
        self.reg_base = world.reg.take()
        self.mkeys = set()
        self.fkeys = set()
        for i, op in enumerate(plan['ops']):
            world.op_index = i
            world.stat('op:' + op['op'])
            self.step(op, i)

    def judge(self, op, desc, out, entry):
        """The error-family oracle."""
        world = self.world
        d0 = desc[0] if desc else dict(prop='-', kind='-', depth=0, path='')
        world.state(entry, op['name'], d0['prop'], d0['kind'], 'ok' if out.ok else type(out.exc).__name__)
        world.log(op=entry, name=op['name'], sites=[(d['path'], d['kind']) for d in desc], outcome=out.tag)
        world.compared()
        if any(d['depth'] >= 3 for d in desc):
            world.probe('corruption_at_depth>=3')
        if any('extensions' in d['path'] for d in desc):
            world.probe('corruption_in_extension')
        if any(x in d['path'] for d in desc for x in ('external_references.', 'kill_chain_phases.', 'granular_markings.', 'values.', 'body_multipart.')):
            world.probe('corruption_in_embedded_object')
        if any(d['path'].startswith('objects.') for d in desc):
            world.probe('observed_data_member_corrupted')
        if len(desc) > 1:
            world.probe('multi_site_corruption')
        if any(d['prop'] in ('score', 'rank') for d in desc):
            world.probe('two_toplevel_extensions')
        if out.ok:
            world.probe('call_returned')
            return
        if isinstance(out.exc, self.allowed):
            world.probe('call_raised_library_error')
            return
        from stix2.datastore import DataSourceError
        if isinstance(out.exc, DataSourceError) and entry in ('fs_add', 'fs_add_text'):
            world.stat('datasource_error')
            return
        import traceback
        exc = out.exc
        # DataStoreMixin re-raises AttributeError with a new message; judge the original failure
        while exc.__context__ is not None and type(exc.__context__) is type(exc) and 'has no data' in str(exc):
            exc = exc.__context__
        tb = traceback.extract_tb(exc.__traceback__)
        frames = [f for f in tb if '/stix2/' in f.filename]
        where = '%s:%s' % (os.path.basename(frames[-1].filename), frames[-1].name) if frames else '?'
        in_parse = self.from_construction(exc)
        if entry not in PARSE_ENTRIES and not in_parse:
            # raised by store-level processing after / outside the parse-construct step: not what the clause is about
            world.stat('store_level_exception:' + type(out.exc).__name__)
            world.stat('store_level_exception@%s:%s:%s' % (entry, type(out.exc).__name__, where))
            return
        sig = 'C17.escape/%s/%s/%s' % (type(out.exc).__name__, where, self.entry_class(entry))
        if isinstance(out.exc, RecursionError) and self.deep_of(desc):
            # names the verified cause: the interpreter's recursion limit met while walking the injected nesting
            sig += '/input-nested-%d-levels' % self.deep_of(desc)
        world.report(Violation('error-family', sig, dict(entry=entry, type=op['name'], ver=op['ver'], sites=desc, exc=safe_repr(out.exc))))

    def from_construction(self, exc):
        """The failure came out of the parse / construct step (not out of store-level processing after it)."""
        import traceback
        frames = [f for f in traceback.extract_tb(exc.__traceback__) if '/stix2/' in f.filename]
        return any(os.path.basename(f.filename) == 'parsing.py' or
                   (os.path.basename(f.filename) == 'base.py' and f.name in ('__init__', '_check_property')) for f in frames)

    def member_order(self, op, bad, desc, out, again):
        """The order of the members of a JSON object carries no meaning: the same damaged content with every object's members
        in another order must meet the same fate (returned or refused) - validation that depends on which member comes
        first has let something through unvalidated in one of the two orders."""
        if self.deep_of(desc):
            return

        def pairlike(v, orig):
            # the library reads a LIST given where an object is expected as a sequence of (name, value) pairs (documented for
            # e.g. hashes); a two-member object inside such a list is then one pair made of its member NAMES in their order - there
            # member order does carry meaning, by that convention, and the oracle does not apply
            if isinstance(v, list):
                if not isinstance(orig, list) and any(isinstance(x, (dict, list, str)) and len(x) == 2 for x in v):
                    return True
                return any(pairlike(x, orig[i] if isinstance(orig, list) and i < len(orig) else None) for i, x in enumerate(v))
            if isinstance(v, dict):
                return any(pairlike(x, orig.get(k) if isinstance(orig, dict) else None) for k, x in v.items())
            return False
        if pairlike(bad, base_object(op) if op.get('src') else None):
            self.world.stat('member_order_not_applicable:list-read-as-pairs')
            return
        import random
        rng = random.Random(op['n'] * 31 + len(desc))

        def shuffled(v):
            if isinstance(v, dict):
                ks = list(v)
                rng.shuffle(ks)
                return {k: shuffled(v[k]) for k in ks}
            if isinstance(v, list):
                return [shuffled(x) for x in v]
            return v
        other = shuffled(bad)
        out2 = again(other)
        self.world.probe('member_order_varied')
        if out.ok != out2.ok:
            raise Violation('validated-object', 'C17.outcome-depends-on-member-order/%s' % ('first-order-accepted' if out.ok else 'shuffled-order-accepted'),
                            dict(type=op['name'], ver=op['ver'], sites=desc, first=out.tag, shuffled=out2.tag,
                                 order=[list(other.get('extensions', {}))] if isinstance(other.get('extensions'), dict) else None))

    def deep_of(self, desc):
        return max([d.get('levels', 0) for d in desc if d['kind'] == 'deep'] or [0])

    def entry_class(self, entry):
        if entry.startswith('parse') or entry in ('construct', 'bundle', 'bundle_dict'):
            return 'parse-construct'
        if entry.startswith(('new_version', 'revoke', 'markings')):
            return 'versioning'
        return 'store'

    def atomic_registry(self, entry):
        # baseline = the maps after the world's and the run's own successful registrations (x-sim-widget, the two toplevel
        # extensions, late_registered types): losing or replacing one of THOSE is a change like any other
        diff = self.world.reg.diff_maps(self.reg_base, self.world.reg.take())
        self.world.probe('atomicity_checked_registry')
        if diff:
            raise Violation('failure-atomicity', 'C17.registry-changed/%s' % entry, dict(diff=diff[:5]))
        mutated = self.world.reg.shape_diff(self.shape0, self.world.reg.shape())
        if mutated:
            raise Violation('failure-atomicity', 'C17.registered-class-mutated/%s' % entry, dict(classes=mutated[:5]))

    def step(self, op, i):
        s = self.s
        sw = self.sw
        world = self.world
        base = base_object(op)
        entry = op['op']
        ac = op['allow_custom']
        bad, desc = corrupt(base, [tuple(p) for p in op['picks']])
        cp = lambda v: C._copy(v)
        if any(d['kind'] == 'deep' for d in desc):
            world.probe('deep_nesting_injected')
            try:
                json.loads(json.dumps(bad))
            except RecursionError:
                world.stat('deep_not_json_decodable')       # outside 'JSON-decodable input'
                return
        if entry == 'parse_dict':
            out = call(s.parse, cp(bad), allow_custom=ac)
            self.member_order(op, bad, desc, out, lambda x: call(s.parse, x, allow_custom=ac))
        elif entry == 'parse_text':
            out = call(s.parse, json.dumps(bad), allow_custom=ac)
            self.member_order(op, bad, desc, out, lambda x: call(s.parse, json.dumps(x), allow_custom=ac))
        elif entry == 'parse_stream':
            world.probe('stream_input')
            out = call(s.parse, io.StringIO(json.dumps(bad)), allow_custom=ac)
        elif entry == 'parse_observable':
            if op['src'] not in ('sco',) and not (op['src'] == 'nested' and 'id' not in base):
                world.stat('op_skipped')
                return
            out = call(s.parse_observable, cp(bad), allow_custom=ac)
        elif entry == 'construct':
            ver = '2.1' if base.get('spec_version') == '2.1' else '2.0'
            cls = s.registry.class_for_type(base['type'], ver)
            if cls is None or not all(isinstance(k, str) for k in bad):
                world.stat('op_skipped')
                return
            out = call(lambda: cls(allow_custom=ac, **cp(bad)))
        elif entry in ('new_version_changes',):
            if 'modified' not in base:
                world.stat('op_skipped')
                return
            world.clock.set(1600000000000000 + i * 1000)
            if entry == 'new_version_changes':
                o = call(s.parse, cp(base), allow_custom=True)
                if not o.ok:
                    world.stat('build_failed')
                    return
                subject = o.value
                changes = {k: v for k, v in bad.items() if base.get(k) != v and k not in ('type', 'id', 'created', 'created_by_ref')}
                if not changes:
                    world.stat('op_skipped')
                    return
                out = call(lambda: s.versioning.new_version(subject, **changes))
            elif entry == 'new_version_dict':
                out = call(lambda: s.versioning.new_version(cp(bad), labels=['x']))
            elif entry == 'revoke_dict':
                out = call(s.versioning.revoke, cp(bad))
            else:
                fn = [s.markings.add_markings, s.markings.get_markings, s.markings.is_marked, s.markings.clear_markings][op['pos'] % 4]
                if fn is s.markings.add_markings:
                    out = call(fn, cp(bad), C.TLP['red'], ['type'] if op['gm'] else None)
                elif fn is s.markings.clear_markings:
                    out = call(fn, cp(bad), ['type'] if op['gm'] else None)
                elif fn is s.markings.get_markings:
                    out = call(fn, cp(bad), ['type'], True, True)
                else:
                    out = call(fn, cp(bad), C.TLP['red'], ['type'], True, True)
        elif entry in ('bundle', 'bundle_dict'):
            v21 = 'spec_version' in base
            B = s.v21.Bundle if v21 else s.v20.Bundle
            good = C.build('2.1' if v21 else '2.0', 'identity', op['n'] + 50, 1500000000000000, 1500000000000000)
            members = [good, cp(bad)] if op['pos'] else [cp(bad), good]
            if entry == 'bundle':
                out = call(lambda: B(objects=members, allow_custom=ac))
            else:
                bd = {'type': 'bundle', 'id': C.mkid('bundle', op['n']), 'objects': members}
                if not v21:
                    bd['spec_version'] = '2.0'
                deep = any(d['kind'] == 'deep' for d in desc)
                bd2, desc2 = corrupt(bd, [tuple(op['picks'][0])]) if op['pos'] == 2 and not deep else (bd, [])
                desc = desc + desc2
                out = call(s.parse, bd2, allow_custom=ac)
        elif entry == 'parse_observable20':
            # a STIX 2.0 observable with object references and the documented scope argument (_valid_refs: key -> type name,
            # key -> object, or a list of keys); the damage lands in the observable or in the scope
            obs = [{'type': 'file', 'name': 'a.zip', 'parent_directory_ref': '1', 'contains_refs': ['2']},
                   {'type': 'email-message', 'is_multipart': False, 'from_ref': '1', 'to_refs': ['2', '3'], 'subject': 's'},
                   {'type': 'network-traffic', 'protocols': ['tcp'], 'src_ref': '1', 'dst_ref': '2', 'encapsulates_refs': ['3']},
                   {'type': 'directory', 'path': '/tmp', 'contains_refs': ['1', '2']}][op['n'] % 4]
            kinds20 = {'file': {'1': 'directory', '2': 'file'}, 'email-message': {'1': 'email-addr', '2': 'email-addr', '3': 'email-addr'},
                       'network-traffic': {'1': 'ipv4-addr', '2': 'ipv4-addr', '3': 'network-traffic'}, 'directory': {'1': 'file', '2': 'directory'}}[obs['type']]
            form = op['n'] // 4 % 3
            scope = dict(kinds20) if form == 0 else {k: {'type': v, 'value': 'x'} for k, v in kinds20.items()} if form == 1 else sorted(kinds20)
            if op['pos'] == 0:
                obs, desc = corrupt(obs, [tuple(p) for p in op['picks']])
            else:
                wrapped, desc = corrupt({'scope': scope}, [tuple(p) for p in op['picks']])
                scope = wrapped.get('scope', scope) if isinstance(wrapped, dict) else scope
            world.probe('observable_2.0_with_reference_scope')
            if op['n'] % 5 == 0 and isinstance(obs, dict):
                # the scope travelling inside the document, as parse() accepts it
                out = call(s.parse, dict(cp(obs), _valid_refs=cp(scope)), allow_custom=ac, version='2.0')
            else:
                out = call(s.parse_observable, cp(obs), cp(scope), allow_custom=ac, version='2.0')
            op = dict(op, name=obs.get('type', '?') if isinstance(obs, dict) else '?')
            if not isinstance(op['name'], str):
                op['name'] = '?'
        elif entry == 'late_registered':
            self.late_registered(op, i)
            return
        elif entry in ('mem_add', 'mem_add_list', 'env_add'):
            self.store_add(op, entry, base, bad, desc, i)
            return
        elif entry in ('fs_add', 'fs_add_text', 'fs_add_bundle'):
            self.store_add(op, entry, base, bad, desc, i)
            return
        elif entry == 'fs_read':
            self.fs_read(op, base, i)
            return
        elif entry == 'mem_load':
            self.mem_load(op, base, i)
            return
        else:
            raise ValueError(entry)
        self.judge(op, desc, out, entry)
        if not out.ok:
            self.atomic_registry(entry)

    def late_registered(self, op, i):
        """History: content of a type is parsed while the type is unknown, THEN the type is registered, then damaged content
        of it is parsed.  From the registration on, a returned value must be an instance of the registered class (the least
        that 'a fully validated object' means), never the passed-through dictionary of the time before."""
        s, world = self.s, self.world
        from stix2.properties import IntegerProperty, ListProperty, StringProperty
        v21 = op['ver'] == '2.1'
        sco = v21 and op['pos'] == 2
        T = 'x-sim-late-%d' % i
        base = {'type': T, 'id': C.mkid(T, op['n']), 'name': 'n', 'size': 3, 'tags': ['a', 'b']}
        if v21:
            base['spec_version'] = '2.1'
        if not sco:
            base.update(created='2017-01-01T00:00:00.000Z', modified='2017-01-01T00:00:00.000Z')
        first = call(s.parse, C._copy(base), allow_custom=op['gm'], version=op['ver'])
        world.stat('late:before=' + first.tag)
        props = [('name', StringProperty(required=True)), ('size', IntegerProperty()), ('tags', ListProperty(StringProperty))]
        V = s.v21 if v21 else s.v20

        def reg():
            deco = V.CustomObservable(T, props, ['name']) if sco else V.CustomObject(T, props)
            return deco(type('Late', (object,), {}))
        r = call(reg)
        if not r.ok:
            world.stat('build_failed')
            return
        cls = r.value
        self.shape0 = world.reg.shape()
        self.reg_base = world.reg.take()
        if v21 and op['n'] % 3 == 0:
            # a construction of a TYPE that must fail: extension_name= names an extension that is registered already
            dup = call(lambda: (s.v21.CustomObservable if sco else s.v21.CustomObject)(T + '-b', props, extension_name=self.sw.TL_A)(
                type('LateB', (object,), {})) if not sco else
                s.v21.CustomObservable(T + '-b', props, ['name'], extension_name=self.sw.TL_A)(type('LateB', (object,), {})))
            world.probe('failing_type_registration')
            if not dup.ok:
                self.atomic_registry('failed_registration')
            else:
                self.reg_base = world.reg.take()
                self.shape0 = world.reg.shape()
        bad, desc = corrupt(base, [tuple(p) for p in op['picks']])
        if any(d['kind'] == 'deep' for d in desc) or bad.get('type') != T:
            bad, desc = base, []
        out = call(s.parse, C._copy(bad), allow_custom=op['allow_custom'], version=op['ver'])
        world.probe('type_registered_after_first_parse')
        self.judge(op, desc, out, 'late_registered')
        if out.ok and not isinstance(out.value, cls):
            raise Violation('validated-object', 'C17.returned-unvalidated/type-registered-after-an-earlier-parse',
                            dict(returned=type(out.value).__name__, sites=desc, first_parse=first.tag, version=op['ver'], observable=sco))
        if not out.ok:
            self.atomic_registry('late_registered')

    # -- stores ---------------------------------------------------------------------
    def keys_in(self, store):
        q = call(store.query, [])
        if not q.ok:
            return None
        out = set()
        for o in q.value:
            if hasattr(o, 'get') and isinstance(o.get('id'), str) and '--' in o['id']:
                try:
                    out.add(SW.obj_key(o))
                except Exception:
                    pass        # junk version stamp: (id, modified) of such content is not a version the comparison can follow
        return out

    def store_add(self, op, entry, base, bad, desc, i):
        s, sw, world = self.s, self.sw, self.world
        mem = entry.startswith(('mem', 'env'))
        store = sw.M if mem else sw.F
        known = self.mkeys if mem else self.fkeys
        good1 = C.build('2.1', 'identity', op['n'] + 60, 1500000000000000, 1500000000000000 + i)
        good2 = C.build('2.0', 'identity', op['n'] + 61, 1500000000000000, 1500000000000000 + i * 1000)
        before = self.keys_in(store)
        if entry == 'mem_add_list':
            seq = [good1, C._copy(bad), good2]
            arg = [C._copy(x) for x in seq]
        elif entry == 'fs_add_bundle':
            # ONE construction (a bundle, as dict or text) with the damaged object between two valid ones
            v21 = 'spec_version' in base
            g1, g2 = (good1, C.build('2.1', 'identity', op['n'] + 62, 1500000000000000, 1500000000000000 + i)) if v21 else \
                     (C.build('2.0', 'identity', op['n'] + 63, 1500000000000000, 1500000000000000 + i * 1000), good2)
            seq = [g1, C._copy(bad), g2]
            if op['pos'] == 0:
                seq = [C._copy(bad), g1, g2]
            bd = {'type': 'bundle', 'id': C.mkid('bundle', op['n']), 'objects': [C._copy(x) for x in seq]}
            if not v21:
                bd['spec_version'] = '2.0'
            arg = json.dumps(bd) if op['n'] % 2 else bd
            self.world.probe('bundle_given_to_filesystem_sink')
        elif entry == 'fs_add_text':
            seq = [bad]
            arg = json.dumps(bad)
        else:
            seq = [bad]
            arg = C._copy(bad)
        if entry == 'env_add':
            env = s.Environment(factory=s.ObjectFactory(), store=store)
            out = call(env.add, arg)
        else:
            out = call(store.add, arg)
        self.judge(op, desc, out, entry)
        after = self.keys_in(store)
        if before is None or after is None:
            # the store cannot be listed any more: something undecodable was written
            if after is None and before is not None and not out.ok:
                sig = 'C17.store-unreadable-after/%s/raised' % entry
                if self.deep_of(desc):
                    sig += ':%s/input-nested-%d-levels' % (type(out.exc).__name__, self.deep_of(desc))
                world.report(Violation('failure-atomicity', sig, dict(sites=desc, type=op['name'], exc=safe_repr(out.exc))))
                self.reset_store(entry)
                return
            if after is None and before is not None:
                # an add that SUCCEEDED with content the source cannot read back is not what the atomicity clause is about
                self.world.stat('store_unreadable_after_successful_add')
                self.reset_store(entry)
            return
        world.probe('atomicity_checked_store')
        world.changed()
        new = after - before
        lost = before - after
        if lost:
            raise Violation('failure-atomicity', 'C17.store-lost-versions/%s' % entry, dict(lost=[SW.kstr(k) for k in sorted(lost, key=repr)[:3]]))
        if not out.ok:
            self.atomic_registry(entry)
            if entry == 'mem_add_list':
                world.probe('list_add_prefix_checked')
                k1, k2 = SW.key_of(good1), SW.key_of(good2)
                if k2 in new and k1 not in after:
                    raise Violation('failure-atomicity', 'C17.list-add-not-prefix', dict(stored=[SW.kstr(k) for k in new]))
                allowed_new = {k1, k2}
            elif entry == 'fs_add_bundle' and not self.from_construction(out.exc):
                # the bundle was constructed; a member then failed in the sink's own processing (not a failed construction):
                # like a list, what was written before it stays
                world.stat('bundle_member_failed_in_sink')
                allowed_new = set()
                for x in seq:
                    try:
                        allowed_new.add(SW.key_of(x))
                    except Exception:
                        pass        # junk id / version stamp: nothing the comparison can follow
            else:
                allowed_new = set()
            # the failing element itself must not be stored
            surplus = {k for k in new if k not in allowed_new}
            if surplus:
                raise Violation('failure-atomicity', 'C17.failed-add-stored-something/%s' % entry,
                                dict(stored=[SW.kstr(k) for k in sorted(surplus, key=repr)[:3]], sites=desc, exc=safe_repr(out.exc)))

    def reset_store(self, entry):
        if entry.startswith(('mem', 'env')):
            self.sw.make_memory()
        else:
            import shutil
            shutil.rmtree(self.sw.fsdir, ignore_errors=True)
            os.mkdir(self.sw.fsdir)
            self.sw.make_fs()

    def fs_read(self, op, base, i):
        """Store a valid object through the sink, corrupt the stored file, read it back through the source."""
        s, sw, world = self.s, self.sw, self.world
        if 'id' not in base:
            world.stat('op_skipped')
            return
        root = os.path.join(sw.disk.root, 'c17fs%d' % i)
        os.mkdir(root)
        sink = s.FileSystemSink(root, allow_custom=True, bundlify=bool(op['pos'] == 2))
        o = call(sink.add, C._copy(base))
        if not o.ok:
            world.stat('build_failed')
            return
        files = [rel for rel in sw.disk.raw_listing() if rel.startswith('c17fs%d/' % i)]
        if len(files) != 1:
            world.stat('build_failed')
            return
        stored = json.loads(sw.disk.raw_listing()[files[0]].decode('utf-8'))
        var = op['picks'][0][2]
        if var % 6 == 0:
            # the whole content of a *.json file is some other JSON value (not an object, or a bundle without a usable member):
            # in place of the stored file, or as an extra file next to it that no add produced
            whole = [[base['id']], [], 2, 'text', None, True, {'type': 'bundle', 'objects': {}}, {'type': 'bundle', 'objects': []},
                     {'type': 'bundle'}, {'type': 'bundle', 'objects': [5]}, [[1, 2]], {}, {'type': 'bundle', 'objects': 'x'},
                     {'type': 'bundle', 'id': C.mkid('bundle', i), 'objects': [None]}]
            bad = whole[var // 6 % len(whole)]
            desc = [dict(path='', prop='(whole file)', depth=0, kind='whole', was='object')]
            target = files[0] if var // 6 // len(whole) % 2 else os.path.join(os.path.dirname(files[0]), 'index.json')
            sw.disk.raw_write(target, json.dumps(bad).encode('utf-8'))
            world.probe('stored_file_replaced_by_non_object')
        else:
            bad, desc = corrupt(stored, [tuple(p) for p in op['picks']])
            sw.disk.raw_write(files[0], json.dumps(bad).encode('utf-8'))
        world.probe('stored_file_corrupted')
        src = s.FileSystemSource(root, allow_custom=op['allow_custom'])
        sw.disk.begin_op(op.get('ls_key', 0))
        which = op['n'] % 3
        if which == 0:
            out = call(src.query, [])
        elif which == 1:
            out = call(src.get, base['id'])
        else:
            out = call(src.all_versions, base['id'])
        sw.disk.end_op()
        self.judge(op, desc, out, 'fs_read')
        if not out.ok:
            self.atomic_registry('fs_read')

    def mem_load(self, op, base, i):
        s, sw, world = self.s, self.sw, self.world
        good = C.build('2.1', 'identity', op['n'] + 70, 1500000000000000, 1500000000000000)
        M1 = s.MemoryStore()
        o = call(M1.add, [C._copy(good), C._copy(base)])
        if not o.ok:
            world.stat('build_failed')
            return
        path = os.path.join(sw.savedir, 'c17-%d.json' % i)
        sv = call(M1.save_to_file, path)
        if not sv.ok:
            world.stat('build_failed')
            return
        rel = os.path.relpath(sv.value, sw.disk.root)
        stored = json.loads(sw.disk.raw_listing()[rel].decode('utf-8'))
        bad, desc = corrupt(stored, [tuple(p) for p in op['picks']])
        sw.disk.raw_write(rel, json.dumps(bad).encode('utf-8'))
        world.probe('saved_bundle_corrupted')
        M2 = s.MemoryStore(allow_custom=op['allow_custom'])
        out = call(M2.load_from_file, sv.value)
        self.judge(op, desc, out, 'mem_load')
        if not out.ok:
            self.atomic_registry('mem_load')
            q = call(M2.query, [])
            world.probe('atomicity_checked_store')
            world.changed()
            if not q.ok:
                raise Violation('failure-atomicity', 'C17.store-unreadable-after/mem_load/raised', dict(sites=desc))


PROFILE = C17()
