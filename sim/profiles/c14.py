"""C14 - a requested spec version is honoured everywhere and never alters strictness (engine `storeworld`).

Ops = entry point x version x allow_custom x input, executed against real stores on the simulated
disk so that the store call sites really run.  Oracles: (1) class of an accepted object belongs to
the named version; (2) differential against the direct parser with the same switches; (3) ids that
only the relaxed id check admits are rejected everywhere; (4) unnamed version: content produced for
version V comes back as version V.
"""
import json
import os

from . import Profile, COMPONENTS_COMMON
from .. import catalog as C
from .. import common as U
from .. import storeworld as SW
from .. import tsparse
from ..core import Violation, call

TS = '2017-01-01T12:34:56.000Z'
TS6 = '2017-01-01T12:34:56.123456Z'
DT_ENTRY_POINTS = ('mem_store_ctor', 'mem_source_ctor', 'mem_sink_ctor', 'mem_store_add', 'mem_sink_add', 'env_add', 'mem_store_add_list',
                   'mem_store_add_bundle', 'fs_sink_add', 'fs_store_add', 'fs_sink_add_list')
ID_KINDS = ['v4', 'v4', 'v4', 'v1', 'v5', 'nonrfc', 'garbage']
ENTRY_POINTS = ['parse_observable', 'mem_store_ctor', 'mem_source_ctor', 'mem_sink_ctor', 'mem_store_add', 'mem_sink_add',
                'mem_source_load', 'mem_store_load', 'fs_sink_add', 'fs_store_add', 'fs_get', 'fs_all_versions', 'fs_query',
                'fs_store_get', 'env_add', 'roundtrip', 'mem_store_add_list', 'mem_store_add_bundle', 'mem_store_load_bundle',
                'fs_sink_add_list', 'fs_sink_add_text', 'fs_store_query', 'fs_store_all_versions', 'fs_mixed_versions']


PRELOADABLE = ('mem_store_add', 'mem_sink_add', 'mem_source_load', 'mem_store_load', 'env_add', 'mem_store_add_list',
               'mem_store_add_bundle', 'mem_store_load_bundle')


def mk_uuid(kind, n):
    base = C.mkuuid(n, 'c14')
    if kind == 'v4':
        return base
    if kind == 'v1':
        return base[:14] + '1' + base[15:]
    if kind == 'v5':
        return base[:14] + '5' + base[15:]
    if kind == 'nonrfc':
        return base[:19] + '0' + base[20:]      # variant bits 0xxx: NCS, not RFC 4122
    return 'not-a-uuid-%d' % n


def family(n, idk, refk):
    """Inputs chosen to separate the spec versions and the strictness levels."""
    u = lambda t: '%s--%s' % (t, mk_uuid(idk, n))
    r = lambda t: '%s--%s' % (t, mk_uuid(refk, n + 1))
    common20 = {'created': TS, 'modified': TS}
    common21 = {'spec_version': '2.1', 'created': TS, 'modified': TS}
    pat = "[file:name = 'a']"
    return {
        'identity20': dict(common20, type='identity', id=u('identity'), name='n', identity_class='individual'),
        'identity21': dict(common21, type='identity', id=u('identity'), name='n'),
        'identity21_nospec': dict(common20, type='identity', id=u('identity'), name='n'),
        'indicator20': dict(common20, type='indicator', id=u('indicator'), labels=['malicious-activity'], pattern=pat, valid_from=TS),
        'indicator21': dict(common21, type='indicator', id=u('indicator'), pattern=pat, pattern_type='stix', valid_from=TS),
        'malware20': dict(common20, type='malware', id=u('malware'), name='m', labels=['ransomware']),
        'malware21': dict(common21, type='malware', id=u('malware'), is_family=False),
        'relationship20': dict(common20, type='relationship', id=u('relationship'), relationship_type='uses',
                               source_ref=r('malware'), target_ref=r('tool')),
        'relationship21': dict(common21, type='relationship', id=u('relationship'), relationship_type='uses',
                               source_ref=r('malware'), target_ref=r('tool')),
        'creator21': dict(common21, type='identity', id=u('identity'), name='n', created_by_ref=r('identity')),
        'creator20': dict(common20, type='identity', id=u('identity'), name='n', identity_class='individual', created_by_ref=r('identity')),
        'file20': dict(type='file', name='x.exe'),
        'file21': dict(type='file', spec_version='2.1', id=u('file'), name='x.exe'),
        'ipv4_21': dict(type='ipv4-addr', spec_version='2.1', id=u('ipv4-addr'), value='10.0.0.1'),
        'ipv4_21_nospec': dict(type='ipv4-addr', id=u('ipv4-addr'), value='10.0.0.1'),
        'marking20': dict(type='marking-definition', id=u('marking-definition'), created=TS, definition_type='statement',
                          definition={'statement': 's'}),
        'marking21': dict(type='marking-definition', spec_version='2.1', id=u('marking-definition'), created=TS,
                          definition_type='statement', definition={'statement': 's'}),
        'unreg21': dict(common21, type='x-unreg-thing', id=u('x-unreg-thing'), name='n'),
        'unreg20': dict(common20, type='x-unreg-thing', id=u('x-unreg-thing'), name='n'),
        'widget21': dict(common21, type='x-sim-widget', id=u('x-sim-widget'), name='w'),
        'widget20': dict(common20, type='x-sim-widget', id=u('x-sim-widget'), name='w'),
        # marking references (the properties every object type gets from the common list or, for custom types, from the decorator)
        'marked20': dict(common20, type='identity', id=u('identity'), name='n', identity_class='individual', object_marking_refs=[r('marking-definition')]),
        'marked21': dict(common21, type='identity', id=u('identity'), name='n', object_marking_refs=[r('marking-definition')]),
        'widget_marked20': dict(common20, type='x-sim-widget', id=u('x-sim-widget'), name='w', object_marking_refs=[r('marking-definition')]),
        'widget_marked21': dict(common21, type='x-sim-widget', id=u('x-sim-widget'), name='w', object_marking_refs=[r('marking-definition')]),
        'widget_gm20': dict(common20, type='x-sim-widget', id=u('x-sim-widget'), name='w',
                            granular_markings=[{'marking_ref': r('marking-definition'), 'selectors': ['name']}]),
        'widget_gm21': dict(common21, type='x-sim-widget', id=u('x-sim-widget'), name='w',
                            granular_markings=[{'marking_ref': r('marking-definition'), 'selectors': ['name']}]),
        'custom_prop21': dict(common21, type='identity', id=u('identity'), name='n', x_foo='bar'),
        'custom_prop20': dict(common20, type='identity', id=u('identity'), name='n', identity_class='individual', x_foo='bar'),
    }


FAMILY_KEYS = sorted(family(0, 'v4', 'v4'))
SCO_KEYS = ['file20', 'file21', 'ipv4_21', 'ipv4_21_nospec']


class C14(Profile):
    pid = 'C14'
    needs_disk = True
    owns_registries = True
    tiers = {'quick': 1600, 'thorough': 120000}
    wall_cap = {'quick': 1200, 'thorough': 6 * 3600}
    probes = ['named_version_differs_from_detected', 'nonrfc_id_rejected', 'uuidv1_id', 'accepted_object_checked',
              'rejected_by_both', 'dict_returned', 'roundtrip_checked', 'fs_entry', 'memory_entry', 'load_entry',
              'nonrfc_ref_rejected', 'fs_layout_flat', 'fs_layout_flat_in_versioned_dir', 'fs_layout_versioned',
              'non_v4_identifier_under_2.0', 'store_already_held_this_version', 'history_of_mixed_spec_versions_on_disk', 'bundlified_file_read_with_named_version', 'timestamps_as_values_of_a_2.1_object']
    rule = ('plans: 20-60 ops, each = (entry point among parse_observable, Memory{Store,Source,Sink} construction/add/load, '
            'FileSystem{Sink,Store}.add, FileSystem{Source,Store}.get/all_versions/query, Environment.add) x version in {None,2.0,2.1} x '
            'allow_custom x one of 29 inputs that separate the versions (differing required properties, spec_version present/absent, '
            'UUIDv1/v5/non-RFC-4122/garbage ids and references); non-trivial = >=1 accepted object compared with the direct parser AND '
            '>=1 store state change; distinct = distinct plan digests')
    state_measure = 'distinct (entry point, named version, allow_custom, input kind, id kind, outcome) tuples'
    assumptions = ['the direct parser stix2.parse(x, allow_custom=a, version=v) called with keywords is the reference for acceptance (property text: "same validation strictness as a direct parse")',
                   'version base classes stix2.v20._STIXBase20 / stix2.v21._STIXBase21 identify the version of an object']
    components = dict(COMPONENTS_COMMON,
                      real=COMPONENTS_COMMON['real'] + ['stix2.parsing', 'stix2.datastore.memory', 'stix2.datastore.filesystem', 'stix2.environment', 'tmpfs'],
                      simulated=COMPONENTS_COMMON['simulated'] + ['readdir order', 'file time stamps (disk-owned clock, plan-chosen granularity)'])

    def generate(self, rng, index, tier):
        ops = []
        for n in range(rng.randrange(20, 61)):
            ep = rng.choice(ENTRY_POINTS)
            key = rng.choice(SCO_KEYS if ep == 'parse_observable' else [k for k in FAMILY_KEYS if k != 'file20'])
            op = {'op': 'entry', 'ep': ep, 'v': rng.choice([None, '2.0', '2.1', '2.0', '2.1']), 'a': rng.random() < 0.5,
                  'inp': key, 'idk': rng.choice(ID_KINDS), 'refk': rng.choice(ID_KINDS + ['v4', 'v4', 'v4']), 'n': index * 100 + n,
                  'ls_key': rng.randrange(100)}
            if ep.startswith('fs_') and 'add' not in ep and ep != 'fs_mixed_versions' and rng.random() < 0.3:
                op['bundlified'] = True
            if ep in PRELOADABLE and rng.random() < 0.4:
                # history: the store already holds this (id, modified) - put there under another version / spelling
                op['pre'] = {'v': rng.choice([None, '2.0', '2.1']), 'respell': rng.random() < 0.3}
            if rng.random() < 0.3 and 'pre' not in op and not key.startswith('marking'):
                # (not together with a pre-loaded store: under another version the earlier copy is another version stamp; not for
                # marking definitions: 2.0 markings keep or cut `created` depending on the form it is given in, by design)
                op['ts6'] = True
                if ep in DT_ENTRY_POINTS and rng.random() < 0.6:
                    op['as_dt'] = True
            if ep == 'roundtrip':
                op['v'] = None
                op['rt_ver'] = rng.choice(['2.0', '2.1'])
                op['rt_type'] = rng.choice(C.versioned_types(op['rt_ver']) + ['bundle', 'bundle-empty', 'marking', 'sco'])
                op['rt_via'] = rng.choice(['parse', 'mem_store_add', 'mem_store_load', 'fs_store', 'mem_store_ctor'])
            ops.append(op)
        return {'config': {'m_allow_custom': True, 'fs_allow_custom': True}, 'pool': [], 'ops': ops}

    def simplify(self, op):
        out = []
        if op.get('pre'):
            out.append({k: v for k, v in op.items() if k != 'pre'})
        if op.get('idk') != 'v4':
            out.append(dict(op, idk='v4'))
        if op.get('refk') != 'v4':
            out.append(dict(op, refk='v4'))
        return out

    # ------------------------------------------------------------------ execution
    def execute(self, plan, world):
        import stix2
        self.stix2 = stix2
        sw = SW.StoreWorld(world, dict(plan, pool=[{'kind': 'sdo', 'ver': '2.1', 'type': 'identity', 'id_n': 1, 'versions': [0], 'created_us': 0}]), 'C14')
        self.sw = sw
        self.bases = {'2.0': stix2.v20._STIXBase20, '2.1': stix2.v21._STIXBase21}
        for i, op in enumerate(plan['ops']):
            world.op_index = i
            world.stat('op:' + op['ep'])
            sw.disk.begin_op(op.get('ls_key', 0))
            if op['ep'] == 'roundtrip':
                self.op_roundtrip(world, sw, op, i)
            else:
                self.op_entry(world, sw, op, i)
            sw.disk.end_op()

    def fresh_dir(self, sw, i, tag):
        d = os.path.join(sw.disk.root, '%s%d' % (tag, i))
        os.makedirs(d)
        return d

    def preloaded(self, cls, d, a, pre):
        """A memory store/sink/source; with `pre`, one that already holds d's (id, modified) from an earlier, separate operation."""
        if pre:
            first = C._copy(d)
            if pre.get('respell') and first.get('modified', '').endswith('.000Z'):
                first['modified'] = first['modified'][:-5] + 'Z'
            o = call(cls, stix_data=[first], allow_custom=a, version=pre['v'])
            if o.ok:
                self.sw.world.probe('store_already_held_this_version')
                return o.value
        return cls(allow_custom=a)

    def run_entry(self, sw, ep, d, a, v, i, pre=None):
        """Returns (Outcome of the entry point, list of objects it yields or None when only acceptance is observable)."""
        s = self.stix2
        from stix2 import MemoryStore, MemorySource, MemorySink, FileSystemSink, FileSystemSource, FileSystemStore, Environment
        # (the input may hold datetime values, see as_dt: those are handed over as they are - a shallow copy of the dict)
        cp = (lambda: dict(d)) if any(not isinstance(x, (str, int, float, bool, list, dict, type(None))) for x in d.values()) else (lambda: C._copy(d))
        if ep == 'parse_observable':
            o = call(s.parse_observable, cp(), allow_custom=a, version=v)
            return o, ([o.value] if o.ok else None)
        if ep == 'mem_store_ctor':
            o = call(MemoryStore, stix_data=[cp()], allow_custom=a, version=v)
            return o, (o.value.query([]) if o.ok else None)
        if ep == 'mem_source_ctor':
            o = call(MemorySource, stix_data=[cp()], allow_custom=a, version=v)
            return o, (o.value.query([]) if o.ok else None)
        if ep == 'mem_sink_ctor':
            o = call(MemorySink, stix_data=[cp()], allow_custom=a, version=v)
            return o, None
        if ep == 'mem_store_add':
            S = self.preloaded(MemoryStore, d, a, pre)
            o = call(S.add, cp(), version=v)
            return o, (S.query([]) if o.ok else None)
        bundle = lambda: dict({'type': 'bundle', 'id': C.mkid('bundle', i), 'objects': [cp()]},
                              **({'spec_version': '2.0'} if 'spec_version' not in d else {}))
        if ep in ('mem_store_add_list', 'mem_store_add_bundle'):
            S = self.preloaded(MemoryStore, d, a, pre)
            o = call(S.add, [[cp()]] if ep.endswith('list') else bundle(), version=v)
            return o, (S.query([]) if o.ok else None)
        if ep == 'mem_store_load_bundle':
            path = os.path.join(self.fresh_dir(sw, i, 'loadb'), 'in.json')
            sw.disk.raw_write(os.path.relpath(path, sw.disk.root), json.dumps(bundle()).encode())
            S = self.preloaded(MemoryStore, d, a, pre)
            o = call(S.load_from_file, path, version=v)
            return o, (S.query([]) if o.ok else None)
        if ep in ('fs_sink_add_list', 'fs_sink_add_bundle_text', 'fs_sink_add_text'):
            root = self.fresh_dir(sw, i, 'fs')
            S = FileSystemSink(root, allow_custom=a)
            arg = [cp()] if ep.endswith('list') else json.dumps(bundle()) if 'bundle' in ep else json.dumps(d)
            o = call(S.add, arg, version=v)
            return o, None
        if ep == 'mem_sink_add':
            S = self.preloaded(MemorySink, d, a, pre)
            o = call(S.add, cp(), version=v)
            return o, None
        if ep == 'env_add':
            S = self.preloaded(MemoryStore, d, a, pre)
            env = Environment(factory=s.ObjectFactory(), store=S)
            o = call(env.add, cp(), version=v)
            return o, (env.query([]) if o.ok else None)
        if ep in ('mem_source_load', 'mem_store_load'):
            path = os.path.join(self.fresh_dir(sw, i, 'load'), 'in.json')
            sw.disk.raw_write(os.path.relpath(path, sw.disk.root), json.dumps(d).encode())
            S = self.preloaded(MemoryStore if ep == 'mem_store_load' else MemorySource, d, a, pre)
            o = call(S.load_from_file, path, version=v)
            return o, (S.query([]) if o.ok else None)
        if ep in ('fs_sink_add', 'fs_store_add'):
            root = self.fresh_dir(sw, i, 'fs')
            S = FileSystemSink(root, allow_custom=a) if ep == 'fs_sink_add' else FileSystemStore(root, allow_custom=a)
            o = call(S.add, cp(), version=v)
            return o, None
        # filesystem reads: the harness places the file (documented plain-file layout <type>/<id>.json)
        root = self.fresh_dir(sw, i, 'fsr')
        relroot = os.path.relpath(root, sw.disk.root)
        layout = ['flat', 'flat_in_versioned_dir', 'versioned'][i % 3]
        wrap = bool(self._cur_op.get('bundlified'))
        sid = d.get('id', 'noid')
        if not sid.split('--')[-1].replace('-', '').isalnum() or 'not-a-uuid' in sid:
            layout = 'flat'      # the one-directory-per-id layout is only recognised for well-formed ids
        if layout == 'versioned':
            rel = os.path.join(relroot, d['type'], sid, '20170101123456000.json')
        else:
            rel = os.path.join(relroot, d['type'], sid + '.json')
        stored = d
        if wrap:
            # what a sink with bundlify=True leaves on disk: the object wrapped in a bundle of its own spec version
            stored = {'type': 'bundle', 'id': C.mkid('bundle', i + 4000), 'objects': [d]}
            if 'spec_version' not in d:
                stored['spec_version'] = '2.0'
            sw.world.probe('bundlified_file_read_with_named_version')
        sw.disk.raw_write(rel, json.dumps(stored).encode())
        if layout == 'flat_in_versioned_dir':
            # a sibling object in the one-directory-per-id layout makes the type directory "versioned"; the flat file is
            # then found through the backward-compatibility search
            sib = dict(d, id='%s--%s' % (d['type'], C.mkuuid(i, 'c14sib')))
            sw.disk.raw_write(os.path.join(relroot, d['type'], sib['id'], '20170101123456000.json'), json.dumps(sib).encode())
        sw.world.probe('fs_layout_' + layout)
        S = FileSystemStore(root, allow_custom=a) if ep.startswith('fs_store') else FileSystemSource(root, allow_custom=a)
        if ep in ('fs_get', 'fs_store_get'):
            o = call(S.get, d.get('id', 'noid'), version=v)
            return o, ([o.value] if o.ok and o.value is not None else ([] if o.ok else None))
        if ep in ('fs_all_versions', 'fs_store_all_versions'):
            o = call(S.all_versions, d.get('id', 'noid'), version=v)
        else:
            o = call(S.query, [s.Filter('type', '=', d['type']), s.Filter('id', '=', sid)], version=v)
        return o, (list(o.value) if o.ok else None)

    MIXED = [('identity20', 'identity21'), ('indicator20', 'indicator21'), ('malware20', 'malware21'), ('relationship20', 'relationship21'),
             ('creator20', 'creator21'), ('custom_prop20', 'custom_prop21'), ('widget20', 'widget21')]

    def op_mixed_versions(self, world, sw, op, i):
        """One id whose history on disk is partly 2.0 and partly 2.1 content (two version files in its directory), read with a
        named version: the answer is what direct parses of BOTH files under that version give - whichever file the
        directory listing yields first."""
        s = self.stix2
        from stix2 import FileSystemSource, FileSystemStore
        a, v = op['a'], op['v']
        idk = op['idk'] if op['idk'] != 'garbage' else 'v4'
        fam = family(op['n'], idk, op['refk'])
        k20, k21 = self.MIXED[op['n'] % len(self.MIXED)]
        d1, d2 = C._copy(fam[k20]), C._copy(fam[k21])
        if op['n'] // 7 % 2:
            d1, d2 = d2, d1
        d2['modified'] = '2017-02-01T12:34:56.000Z'
        root = self.fresh_dir(sw, i, 'fsm')
        relroot = os.path.relpath(root, sw.disk.root)
        for d, fn in ((d1, '20170101123456000'), (d2, '20170201123456000')):
            sw.disk.raw_write(os.path.join(relroot, d['type'], d['id'], fn + '.json'), json.dumps(d).encode())
        refs = [call(s.parse, C._copy(d), allow_custom=a, version=v) for d in (d1, d2)]
        S = FileSystemStore(root, allow_custom=a) if op['n'] % 2 else FileSystemSource(root, allow_custom=a)
        how = ['all_versions', 'get', 'query'][op['n'] // 2 % 3]
        if how == 'all_versions':
            out = call(S.all_versions, d1['id'], version=v)
        elif how == 'get':
            out = call(S.get, d1['id'], version=v)
        else:
            out = call(S.query, [s.Filter('id', '=', d1['id'])], version=v)
        world.probe('history_of_mixed_spec_versions_on_disk')
        world.state('fs_mixed_versions', how, v, a, k20, idk, out.tag.split(':')[0], tuple(r.ok for r in refs))
        world.log(op='fs_mixed_versions', how=how, v=v, a=a, pair=k20, idk=idk, outcome=out.tag, refs=[r.tag for r in refs])
        world.compared()
        want_ok = all(r.ok for r in refs)
        if out.ok != want_ok:
            raise Violation('same-as-direct-parse', 'C14.accept-mismatch/fs_mixed_versions/%s/%s' % (how, 'entry-accepts' if out.ok else 'entry-rejects'),
                            dict(version=v, allow_custom=a, files=[d1, d2], direct=[r.tag for r in refs], entry=out.tag))
        if out.ok:
            world.changed()
            objs = [out.value] if how == 'get' else list(out.value)
            if how != 'get' and len(objs) != 2:
                raise Violation('same-as-direct-parse', 'C14.count/fs_mixed_versions', dict(n=len(objs), how=how))
            if v:
                for got in objs:
                    if got is not None and not isinstance(got, dict) and not isinstance(got, self.bases[v]):
                        raise Violation('version-honoured', 'C14.class/fs_mixed_versions/named-%s' % v, dict(got=type(got).__module__))

    def op_entry(self, world, sw, op, i):
        s = self.stix2
        if op['ep'] == 'fs_mixed_versions':
            return self.op_mixed_versions(world, sw, op, i)
        d = family(op['n'], op['idk'], op['refk'])[op['inp']]
        a, v, ep = op['a'], op['v'], op['ep']
        is_sco_ep = ep == 'parse_observable'
        if ep.startswith('fs_') and 'add' not in ep and 'id' not in d:
            world.stat('op_skipped')
            return
        if ep.startswith('fs_') and op['idk'] == 'garbage':
            pass
        if op.get('ts6'):
            # instants below the millisecond (2.1 keeps them, 2.0 cuts them)
            d = {k: (TS6 if x == TS else x) for k, x in d.items()}
        ref = None if is_sco_ep else call(s.parse, C._copy(d), allow_custom=a, version=v)
        d_text = d
        if op.get('as_dt') and ep in DT_ENTRY_POINTS:
            # the same content with created / modified / valid_from as the datetime VALUES an existing 2.1 object holds (what a
            # caller gets from obj.modified); the reference stays the direct parse of the text form
            d = dict(d)
            for k2 in ('created', 'modified', 'valid_from'):
                if isinstance(d.get(k2), str):
                    d[k2] = s.utils.parse_into_datetime(d[k2], precision='millisecond', precision_constraint='min')
            world.probe('timestamps_as_values_of_a_2.1_object')
        self._cur_op = op
        if op.get('bundlified') and ep.startswith('fs_') and 'add' not in ep:
            # the stored content IS a bundle: the reference is the direct parse of that bundle under the same switches, its member
            wrapped = {'type': 'bundle', 'id': C.mkid('bundle', i + 4000), 'objects': [C._copy(d)]}
            if 'spec_version' not in d:
                wrapped['spec_version'] = '2.0'
            rb = call(s.parse, wrapped, allow_custom=a, version=v)
            ref = rb if not rb.ok else call(lambda: rb.value['objects'][0])
        out, objs = self.run_entry(sw, ep, d, a, v, i, op.get('pre'))
        detected = '2.1' if ('spec_version' in d or (d['type'] in ('ipv4-addr',) and 'id' in d)) else '2.0'
        if v and v != detected:
            world.probe('named_version_differs_from_detected')
        if op['idk'] == 'v1':
            world.probe('uuidv1_id')
        world.probe('fs_entry' if ep.startswith('fs_') else 'load_entry' if ep.endswith('_load') else 'memory_entry')
        world.state(ep, v, a, op['inp'], op['idk'], out.tag.split(':')[0])
        world.log(op=ep, v=v, a=a, inp=op['inp'], idk=op['idk'], refk=op['refk'], outcome=out.tag,
                  ref=(ref.tag if ref else None))
        bad_id = op['idk'] in ('nonrfc', 'garbage') and 'id' in d
        has_ref = any(k.endswith('_ref') or k.endswith('_refs') or k == 'granular_markings' for k in d)
        bad_ref = op['refk'] in ('nonrfc', 'garbage') and has_ref
        registered = d['type'] not in ('x-unreg-thing',)
        if d['type'] in ('file', 'ipv4-addr') and (v or detected) == '2.0':
            # interpreted as a 2.0 observable: `id` is not an identifier property there (it is custom content)
            bad_id = False
        # (3) strictness: ids that only the relaxed check admits are refused everywhere (registered types are validated)
        if out.ok and registered and (bad_id or bad_ref) and (objs is None or objs):
            raise Violation('strictness', 'C14.strictness/%s/%s' % (ep, 'id' if bad_id else 'ref'),
                            dict(input=d, version=v, allow_custom=a))
        if not out.ok and (bad_id or bad_ref):
            world.probe('nonrfc_id_rejected' if bad_id else 'nonrfc_ref_rejected')
        # (3b) under 2.0 an identifier is a version-4 UUID - in `id` and in every reference property, of built-in and of registered
        # custom types alike; content accepted as 2.0 with a version 1 / 5 UUID was validated by another version's rules
        eff = v or detected
        if eff == '2.0' and registered and d['type'] not in ('file', 'ipv4-addr'):
            odd_id = op['idk'] in ('v1', 'v5') and 'id' in d
            odd_ref = op['refk'] in ('v1', 'v5') and has_ref
            if odd_id or odd_ref:
                world.probe('non_v4_identifier_under_2.0')
                if out.ok and (objs is None or objs) and not (op.get('bundlified') and ep.startswith('fs_') and 'add' not in ep):
                    raise Violation('strictness', 'C14.strictness-2.0/%s/%s/%s' % (ep, 'id' if odd_id else 'ref', d['type']),
                                    dict(input=d, version=v, allow_custom=a))
        # (2) differential against the direct parser
        if ref is not None:
            accepted = out.ok and (objs is None or len(objs) > 0)
            if accepted != ref.ok:
                raise Violation('same-as-direct-parse', 'C14.accept-mismatch/%s/%s' % (ep, 'entry-accepts' if accepted else 'entry-rejects'),
                                dict(input=d, version=v, allow_custom=a, entry=out.tag, direct=ref.tag,
                                     exc=repr(out.exc or ref.exc)[:300]))
            if not ref.ok:
                world.probe('rejected_by_both')
        if not out.ok or not objs:
            if out.ok and objs is None and ep.startswith('fs_') and 'add' in ep:
                world.changed()
                self.check_written(world, sw, ref, i, d)
            return
        world.changed()
        if len(objs) != 1:
            raise Violation('same-as-direct-parse', 'C14.count/%s' % ep, dict(n=len(objs)))
        got = objs[0]
        if isinstance(got, dict):
            world.probe('dict_returned')
        # (1) independent: class belongs to the named version
        if v and not isinstance(got, dict) and not isinstance(got, self.bases[v]) and not (op.get('bundlified') and ep.startswith('fs_') and 'add' not in ep):
            # (in a bundlified file the named version governs the bundle wrapper; its member is recognised on its own, as the
            # direct parser does for bundle members - the differential oracle below covers it)
            raise Violation('version-honoured', 'C14.class/%s/named-%s' % (ep, v),
                            dict(input=d, got=type(got).__module__ + '.' + type(got).__name__, allow_custom=a))
        world.probe('accepted_object_checked')
        world.compared()
        if ref is not None and ref.ok:
            want = ref.value
            if isinstance(want, dict) != isinstance(got, dict) or (not isinstance(got, dict) and type(got) is not type(want)):
                raise Violation('same-as-direct-parse', 'C14.class/%s/differs-from-direct' % ep,
                                dict(input=d, version=v, got=type(got).__name__, want=type(want).__name__,
                                     gotmod=type(got).__module__, wantmod=type(want).__module__))
            if SW.norm(U.to_json(got)) != SW.norm(U.to_json(want)):
                raise Violation('same-as-direct-parse', 'C14.content/%s' % ep, dict(input=d, version=v))

    def check_written(self, world, sw, ref, i, d):
        """What a filesystem sink wrote equals the serialisation of the directly parsed object."""
        if ref is None or not ref.ok:
            return
        files = {rel: data for rel, data in sw.disk.raw_listing().items() if rel.startswith('fs%d/' % i)}
        if len(files) != 1:
            raise Violation('same-as-direct-parse', 'C14.fs-write/files', dict(n=len(files)))
        j = json.loads(list(files.values())[0].decode('utf-8'))
        world.compared()
        if SW.norm(j) != SW.norm(U.to_json(ref.value, defaults=False)):
            raise Violation('same-as-direct-parse', 'C14.fs-write/content', dict(input=d))

    # -- (4) unnamed version: what the library produced for V is recognised as V ------------------
    def op_roundtrip(self, world, sw, op, i):
        s = self.stix2
        from stix2 import MemoryStore, FileSystemStore
        ver, typ = op['rt_ver'], op['rt_type']
        V = s.v21 if ver == '2.1' else s.v20
        n = op['n']
        if typ in ('bundle', 'bundle-empty'):
            members = [] if typ == 'bundle-empty' else [C.build(ver, 'identity', n, 1500000000000000, 1500000000000000)]
            o = call(V.Bundle, objects=members, id=C.mkid('bundle', n)) if members else call(V.Bundle, id=C.mkid('bundle', n))
        elif typ == 'marking':
            d = dict(C.MARKING_STATEMENT_21 if ver == '2.1' else C.MARKING_STATEMENT_20, id=C.mkid('marking-definition', n), created=TS)
            o = call(s.parse, d, version=ver)
        elif typ == 'sco':
            if ver == '2.0':
                world.stat('op_skipped')
                return
            o = call(s.parse, dict(type='ipv4-addr', spec_version='2.1', value='10.1.%d.%d' % (n % 250, i % 250)), version=ver)
        else:
            o = call(s.parse, C.build(ver, typ, n, 1500000000000000, 1500000001000000), version=ver)
        if not o.ok:
            world.stat('build_failed')
            return
        obj = o.value
        text = U.to_text(obj)
        via = op['rt_via']
        if typ.startswith('bundle') and via != 'parse':
            via = 'parse'
        if via == 'parse':
            r = call(s.parse, text)
            objs = [r.value] if r.ok else None
        elif via == 'mem_store_add':
            S = MemoryStore()
            r = call(S.add, json.loads(text))
            objs = S.query([]) if r.ok else None
        elif via == 'mem_store_ctor':
            r = call(MemoryStore, stix_data=[json.loads(text)])
            objs = r.value.query([]) if r.ok else None
        elif via == 'mem_store_load':
            path = os.path.join(self.fresh_dir(sw, i, 'rt'), 'in.json')
            sw.disk.raw_write(os.path.relpath(path, sw.disk.root), text.encode())
            S = MemoryStore()
            r = call(S.load_from_file, path)
            objs = S.query([]) if r.ok else None
        else:
            root = self.fresh_dir(sw, i, 'rtfs')
            S = FileSystemStore(root, allow_custom=True)
            r = call(S.add, text)
            if r.ok:
                r = call(S.query, [])
            objs = list(r.value) if r.ok else None
        world.log(op='roundtrip', ver=ver, typ=typ, via=via, outcome=r.tag)
        world.state('roundtrip', ver, typ if typ.startswith('bundle') else 'obj', via, r.tag.split(':')[0])
        if not r.ok:
            raise Violation('recognised-as-produced', 'C14.roundtrip-raised/%s/%s/%s' % (via, 'bundle' if typ.startswith('bundle') else 'object', type(r.exc).__name__),
                            dict(ver=ver, typ=typ, text=text[:300], exc=repr(r.exc)[:300]))
        world.changed()
        world.compared()
        world.probe('roundtrip_checked')
        if len(objs) != 1 or isinstance(objs[0], dict) or not isinstance(objs[0], self.bases[ver]):
            raise Violation('recognised-as-produced', 'C14.roundtrip-class/%s/%s' % (via, ver),
                            dict(typ=typ, got=[type(x).__module__ for x in objs], text=text[:300]))


PROFILE = C14()
