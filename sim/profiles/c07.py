"""C07 - data-marking operations form a consistent algebra over (selector, marking) pairs (engine `lifecycle`).

One evolving subject per chain; the plan is an operation history (add / remove / set / clear, object-level
and granular, get_markings / is_marked with every inherited x descendants combination).  Every mutation
mints a version, so the wall clock is steered exactly as in C05.  Reference model: a set of object-level
marking ids and a set of (selector, kind, value) pairs; ancestry is on the property-path tree.
"""
from . import Profile, COMPONENTS_COMMON
from . import c05 as C05
from .. import catalog as C
from .. import common as U
from .. import tsparse
from ..core import Violation, call
from ..fingerprint import fingerprint, first_difference

MUTATIONS = ['add', 'remove', 'set', 'clear']
QUERIES = ['get', 'is_marked']
MARK_KEYS = ('object_marking_refs', 'granular_markings')


def enum_paths(j):
    """(selector, class) for every address in JSON value j that the marking functions can be asked about.
    class: 'top' | 'index' | 'deep'.  Only truthy values and first occurrences of list elements."""
    out = []

    def walk(v, path, depth):
        if isinstance(v, dict):
            for k in sorted(v):
                if depth == 0 and k in MARK_KEYS:
                    continue
                if not v[k]:
                    continue
                p = path + [k]
                out.append(('.'.join(p), 'top' if depth == 0 else 'deep'))
                walk(v[k], p, depth + 1)
        elif isinstance(v, list):
            for i, e in enumerate(v):
                if not e or v.index(e) != i:
                    continue
                p = path + ['[%d]' % i]
                out.append(('.'.join(p), 'index' if depth == 1 else 'deep'))
                if isinstance(e, (dict, list)):
                    walk(e, p, depth + 1)
    walk(j, [], 0)
    return out


def is_ancestor(a, b):
    """a is an ancestor of b (or b itself) on the property-path tree."""
    return b == a or b.startswith(a + '.')


def kind_of(m):
    return 'ref' if m.startswith('marking-definition--') else 'lang'


def extract(j):
    om = set(j.get('object_marking_refs') or [])
    gm = set()
    for g in j.get('granular_markings') or []:
        for s in g.get('selectors') or []:
            if g.get('marking_ref'):
                gm.add((s, 'ref', g['marking_ref']))
            if g.get('lang'):
                gm.add((s, 'lang', g['lang']))
    return om, gm


# marking-definition ids whose UUID is version 1 / 3 / 5: legal identifiers in 2.1, not in 2.0 (which demands version 4). The pool is
# shared by the 2.0 and 2.1 subjects of a run, so whatever the library remembers about an identifier it has seen is met again
ODD_MARKING_IDS = ['marking-definition--a8fe6488-b87f-55ae-ae9e-2d2764db2977', 'marking-definition--e4d7b2f0-5d2a-11e9-8647-d663bd873d93',
                   'marking-definition--6fa459ea-ee8a-3ca4-894e-db77e160355e']


def model_get(om, gm, sels, inh, desc, use_ref=True, use_lang=True):
    out = set()
    for (s, k, v) in gm:
        if (k == 'ref' and not use_ref) or (k == 'lang' and not use_lang):
            continue
        for u in sels:
            if u == s or (inh and is_ancestor(s, u)) or (desc and is_ancestor(u, s)):
                out.add(v)
    return out


class C07(Profile):
    pid = 'C07'
    tiers = {'quick': 5000, 'thorough': 400000}
    wall_cap = {'quick': 900, 'thorough': 5 * 3600}
    probes = ['prefix_sibling_queried_inherited', 'prefix_sibling_queried_descendants', 'object_and_granular_both_present',
              'lang_marking', 'non_v4_marking_id', 'list_index_selector', 'deep_selector_on_dict', 'marking_not_found_legit', 'noop_same_object',
              'metamorphic_idempotent', 'metamorphic_commute', 'metamorphic_set_eq_clear_add', 'remove_restores',
              'marking_definition_subject', 'marking_passed_as_object', 'inherited_from_object_level', 'switch_excludes_kind']
    rule = ('plans: 1-3 subjects (2.0/2.1 SDO/SRO as object or dict, marking definitions, optional x_ prefix-sibling properties) and 10-40 '
            'marking ops each (add/remove/set/clear object-level and granular with selectors from an own path enumerator incl. prefix siblings, '
            'list indices and nested paths; get_markings/is_marked with all inherited x descendants x kind-switch combinations; metamorphic '
            'probes) under a steered clock; non-trivial = >=1 mutation produced a new version AND >=1 query or pair-set comparison ran on a '
            'non-empty marking set; distinct = distinct plan digests')
    state_measure = 'distinct (spec version, subject form, op, selector class, flags, outcome class, model-state class) tuples'
    assumptions = ['the set model of (selector, kind, value) pairs with path-tree ancestry is what the property states',
                   'selectors that descend into embedded library objects may be refused for object subjects (C08 matter), never for dicts',
                   'is_marked is checked for a single marking or None (lists have contradictory documentation)']
    components = dict(COMPONENTS_COMMON, real=COMPONENTS_COMMON['real'] + ['stix2.markings (all modules)', 'stix2.versioning'])

    # ------------------------------------------------------------------ generation
    def generate(self, rng, index, tier):
        nch = rng.choice([1, 1, 2, 3])
        subjects = []
        for c in range(nch):
            ver = rng.choice(['2.0', '2.1'])
            form = U.weighted(rng, [('obj', 5), ('dict', 4), ('mdef', 0.5)])
            typ = rng.choice(C.versioned_types(ver))
            if rng.random() < 0.25:
                typ = 'indicator'
            minimal, rich = C.template(ver, typ)[:2]
            common = C.COMMON_OPT_20 if ver == '2.0' else C.COMMON_OPT_21
            base_s = 1483228800 + rng.randrange(0, 10 ** 8)
            mod_us = base_s * 1000000 + rng.choice(C.FRACTIONS)
            subjects.append(dict(ver=ver, form=form, type=typ, id_n=index * 8 + c, mod_us=mod_us,
                                 created_us=mod_us - rng.choice([0, 1000, 1000000]),
                                 rich=[k for k in rich if rng.random() < 0.6],
                                 common=[k for k in common if rng.random() < 0.6 and k != 'object_marking_refs'],
                                 xsib=rng.random() < 0.35, init_om=rng.sample(C.MARKING_IDS, rng.choice([0, 0, 1, 2])),
                                 init_gm=rng.random() < 0.4, xlong=rng.random() < 0.3))
        cfg = {'rels': rng.sample(C05.REL_NAMES, rng.randrange(3, len(C05.REL_NAMES) + 1))}
        kinds = U.swarm_weights(rng, MUTATIONS + QUERIES + ['meta'], keep=0.85, must=('add', 'get'))
        ops = []
        for _ in range(rng.randrange(10, 41)):
            kind = U.weighted(rng, kinds)
            op = {'op': kind, 'chain': rng.randrange(nch), 'clock': {'rel': rng.choice(cfg['rels'])},
                  'granular': rng.random() < 0.7, 'via': rng.choice(['func', 'method']),
                  'sel': [rng.randrange(10 ** 6) for _ in range(rng.choice([1, 1, 1, 2, 3]))],
                  'sel_pref': rng.choice(['any', 'any', 'marked', 'marked', 'prefix', 'index', 'deep']),
                  'marks': [rng.randrange(10 ** 6) for _ in range(rng.choice([1, 1, 1, 2]))],
                  'mark_pref': rng.choice(['any', 'present', 'present', 'lang']),
                  'single': rng.random() < 0.5, 'as_obj': rng.random() < 0.15,
                  'inh': rng.random() < 0.5, 'desc': rng.random() < 0.5,
                  'use_ref': rng.random() < 0.85, 'use_lang': rng.random() < 0.85}
            if kind in ('add', 'set') and rng.random() < 0.1:
                op['odd_mark'] = rng.randrange(1, 100)       # a marking id whose UUID is RFC 4122 but not version 4
            if kind == 'is_marked' and rng.random() < 0.2:
                op['marks'] = []
            if kind == 'meta':
                op['meta'] = rng.choice(['idempotent', 'commute', 'set_eq_clear_add', 'remove_restores'])
            ops.append(op)
        return {'config': cfg, 'subjects': subjects, 'ops': ops}

    def simplify(self, op):
        out = []
        if op.get('clock') != {'rel': 'after_1s'}:
            out.append(dict(op, clock={'rel': 'after_1s'}))
        if len(op.get('sel', [])) > 1:
            out.append(dict(op, sel=op['sel'][:1]))
        if len(op.get('marks', [])) > 1:
            out.append(dict(op, marks=op['marks'][:1]))
        for k in ('inh', 'desc', 'as_obj'):
            if op.get(k):
                out.append(dict(op, **{k: False}))
        return out

    # ------------------------------------------------------------------ execution
    def make_subject(self, world, sd):
        import stix2
        ver, form = sd['ver'], sd['form']
        if form == 'mdef':
            d = dict(C.MARKING_STATEMENT_21 if ver == '2.1' else C.MARKING_STATEMENT_20)
            d.update(id=C.mkid('marking-definition', sd['id_n']), created=tsparse.fmt(tsparse.trunc_ms(sd['created_us']), digits=3))
            o = call(stix2.parse, d)
            world.probe('marking_definition_subject')
            return (o.value if o.ok else None)
        d = C.build(ver, sd['type'], sd['id_n'], sd['created_us'], sd['mod_us'], sd['rich'], sd['common'])
        if sd.get('xsib'):
            d['x_foo'] = 'v1'
            d['x_foo_bar'] = 'v2'
            d['x_nest'] = {'aa': 'x', 'aab': {'deep': [1, 2]}}
        if sd.get('xlong'):
            # selectors whose text does not sort the way the walk over the object does: list indices >= 10, and a key
            # that extends a sibling container's key with a character below '.'
            d['x_long'] = ['e%d' % n for n in range(13)]
            d['x_sib'] = {'src': {'a': 'x', 'z': ['y']}, 'src-id': 'abc', 'src-': 'def', 'sr': 'g', 'src_': 'h'}
        if sd.get('init_om'):
            d['object_marking_refs'] = list(sd['init_om'])
        if sd.get('init_gm'):
            # deliberately not in the library's own normal form: repeated pair, unsorted selectors, two entries for one marking
            d['granular_markings'] = [{'marking_ref': C.TLP['red'], 'selectors': ['type', 'created']},
                                      {'marking_ref': C.TLP['red'], 'selectors': ['created']},
                                      {'marking_ref': C.STATEMENT_MARKINGS[1], 'selectors': ['id', 'type']}]
            if ver == '2.1' or form == 'dict':
                d['granular_markings'].append({'lang': 'fr', 'selectors': ['type']})
        if form == 'obj':
            o = call(stix2.parse, d, allow_custom=True)
            return o.value if o.ok else None
        return d

    def execute(self, plan, world):
        import stix2
        import stix2.markings
        self.stix2 = stix2
        self.M = stix2.markings
        subs = []
        for sd in plan['subjects']:
            subj = self.make_subject(world, sd)
            if subj is None:
                world.stat('head_creation_failed')
            subs.append({'d': sd, 'head': subj})
        for i, op in enumerate(plan['ops']):
            world.op_index = i
            st = subs[op['chain'] % len(subs)]
            if st['head'] is None:
                continue
            world.stat('op:' + op['op'])
            self.step(world, st, op)

    # -- choosing concrete selectors / markings from the plan's indices ---------
    def pick_selectors(self, op, paths, gm, is_obj):
        pref = op.get('sel_pref', 'any')
        marked = sorted({s for s, _, _ in gm})
        cands = [p for p, c in paths if not (is_obj and c == 'deep')] or [p for p, _ in paths]
        pool = cands
        if pref == 'marked' and marked:
            pool = marked
        elif pref == 'prefix':
            names = [p for p, c in paths if c == 'top']
            pool = [p for p in names if any(q != p and (q.startswith(p) or p.startswith(q)) for q in names)] or cands
        elif pref == 'index':
            pool = [p for p, c in paths if c == 'index'] or cands
        elif pref == 'deep':
            pool = [p for p, c in paths if c == 'deep'] or cands
            if is_obj and op['sel'][0] % 10:      # deep selectors at 10% weight for objects
                pool = cands
        return [pool[n % len(pool)] for n in op['sel']]

    def pick_marks(self, op, om, gm, ver, is_obj):
        pref = op.get('mark_pref', 'any')
        allowed = list(C.MARKING_IDS)
        if ver == '2.1' or not is_obj:
            allowed += C.LANGS
        present = sorted(om | {v for _, _, v in gm})
        pool = allowed
        if pref == 'present' and present:
            pool = present
        elif pref == 'lang' and (ver == '2.1' or not is_obj):
            pool = C.LANGS
        return [pool[n % len(pool)] for n in op['marks']]

    def step(self, world, st, op):
        M = self.M
        sd = st['d']
        head = st['head']
        ver, form = sd['ver'], sd['form']
        is_obj = form != 'dict'
        hjson = U.to_json(head)
        om, gm = extract(hjson)
        paths = enum_paths(hjson)
        pclass = dict(paths)
        kind = op['op']
        granular = op.get('granular', True)
        sels = self.pick_selectors(op, paths, gm, is_obj) if granular else None
        marks = self.pick_marks(dict(op, marks=op.get('marks') or [0]), om, gm, ver, is_obj)
        if not granular:
            marks = [m for m in marks if kind_of(m) == 'ref'] or [C.MARKING_IDS[(op.get('marks') or [0])[0] % len(C.MARKING_IDS)]]
        self.odd_refusal = False
        if op.get('odd_mark') and kind in ('add', 'set'):
            marks = marks[:-1] + [ODD_MARKING_IDS[op['odd_mark'] % len(ODD_MARKING_IDS)]]
            world.probe('non_v4_marking_id')
            # a 2.0 OBJECT validates its references as 2.0 identifiers: the request has to be refused (dicts are not validated)
            self.odd_refusal = is_obj and ver == '2.0'
        if om and gm:
            world.probe('object_and_granular_both_present')
        if any(kind_of(m) == 'lang' for m in marks):
            world.probe('lang_marking')
        if sels and any(pclass.get(s) == 'index' for s in sels):
            world.probe('list_index_selector')
        if sels and not is_obj and any(pclass.get(s) == 'deep' for s in sels):
            world.probe('deep_selector_on_dict')
        maybe_refused = bool(sels) and is_obj and any(pclass.get(s, 'deep') == 'deep' for s in sels)
        old_val = head.get('modified') or head.get('created')
        old_us = U.instant_us(old_val)
        spec = op.get('clock') or {'rel': 'after_1s'}
        base, delta = C05.CLOCK_RELS[spec.get('rel', 'after_1s')]
        world.clock.set((tsparse.trunc_ms(old_us) if base == 'f' else old_us) + delta, mode='fixed')
        self._world = world
        marg = self.marking_arg(op, marks)
        sarg = (sels[0] if (sels and len(sels) == 1 and op.get('single')) else sels)
        use_method = op.get('via') == 'method' and is_obj and hasattr(head, 'add_markings')

        def fnc(name):
            return getattr(head, name) if use_method else (lambda *a, **k: getattr(M, name)(head, *a, **k))

        if kind in MUTATIONS:
            self.mutate(world, st, op, kind, fnc, marg, sarg, marks, sels, om, gm, hjson, maybe_refused, old_us, ver, form)
        elif kind == 'get':
            self.q_get(world, st, op, fnc, sarg, sels, om, gm, maybe_refused, paths)
        elif kind == 'is_marked':
            self.q_is_marked(world, st, op, fnc, marks, sarg, sels, om, gm, maybe_refused)
        else:
            self.meta(world, st, op, marks, sels, om, gm, maybe_refused, is_obj)

    def marking_arg(self, op, marks):
        arg = []
        for m in marks:
            if op.get('as_obj') and m in C.TLP.values():
                name = {v: k for k, v in C.TLP.items()}[m]
                arg.append(getattr(self.stix2, 'TLP_' + name.upper()))
                self._world.probe('marking_passed_as_object')
            else:
                arg.append(m)
        return arg[0] if (len(arg) == 1 and op.get('single')) else arg

    # -- mutations ---------------------------------------------------------------
    def model_apply(self, kind, marks, sels, om, gm, use_ref=True, use_lang=True):
        """Returns (new_om, new_gm, not_found_allowed, noop_same_object_allowed)."""
        om2, gm2 = set(om), set(gm)
        nf = False
        noop = False
        if sels is None:
            if kind == 'add':
                om2 |= set(marks)
            elif kind == 'remove':
                nf = not set(marks) <= om
                noop = not om
                om2 -= set(marks)
            elif kind == 'clear':
                om2 = set()
            else:
                om2 = set(marks)
        else:
            pairs = {(s, kind_of(m), m) for s in sels for m in marks}
            cleared = {(s, k, v) for (s, k, v) in gm if s in sels and ((k == 'ref' and use_ref) or (k == 'lang' and use_lang))}
            marked_sel = {s for s, _, _ in gm}
            if kind == 'add':
                gm2 |= pairs
            elif kind == 'remove':
                nf = not pairs <= gm
                noop = not gm
                gm2 -= pairs
            elif kind == 'clear':
                nf = not set(sels) <= marked_sel
                noop = not gm
                gm2 -= cleared
            else:
                nf = bool(gm) and not set(sels) <= marked_sel
                gm2 -= cleared
                gm2 |= pairs
        return om2, gm2, nf, noop

    def mutate(self, world, st, op, kind, fnc, marg, sarg, marks, sels, om, gm, hjson, maybe_refused, old_us, ver, form):
        head = st['head']
        fp0 = fingerprint(head)
        kw = {}
        use_ref, use_lang = True, True
        if sels is not None and kind in ('set', 'clear') and (not op.get('use_ref', True) or not op.get('use_lang', True)):
            use_ref, use_lang = op.get('use_ref', True), op.get('use_lang', True)
            kw = {'marking_ref': use_ref, 'lang': use_lang}
        if kind == 'add':
            out = call(fnc('add_markings'), marg, sarg)
        elif kind == 'remove':
            out = call(fnc('remove_markings'), marg, sarg)
        elif kind == 'set':
            out = call(fnc('set_markings'), marg, sarg, **kw)
        else:
            out = call(fnc('clear_markings'), sarg, **kw)
        om2, gm2, nf_ok, noop_ok = self.model_apply(kind, marks, sels, om, gm, use_ref, use_lang)
        fp1 = fingerprint(head)
        if fp1 != fp0:
            raise Violation('subject-untouched', 'C07.subject-mutated/%s' % kind, first_difference(fp0, fp1))
        gtag = 'granular' if sels is not None else 'object'
        world.state(ver, form, kind, gtag, out.tag.split(':')[0] if out.ok else type(out.exc).__name__,
                    bool(om), bool(gm), bool(kw))
        world.log(op=kind, g=gtag, sels=sels, marks=marks, outcome=out.tag)
        if self.odd_refusal:
            if out.ok:
                raise Violation('valid-result', 'C07.result-not-valid/2.0-object-with-non-v4-marking-id/%s/%s' % (kind, gtag),
                                dict(marks=marks, sels=sels, result=U.to_json(out.value)))
            if isinstance(out.exc, (self.stix2.exceptions.STIXError, ValueError)):
                world.stat('refused_non_v4_marking_on_2.0')
                return
        if not out.ok:
            name = type(out.exc).__name__
            E = self.stix2.exceptions
            if isinstance(out.exc, E.MarkingNotFoundError):
                if not nf_ok:
                    raise Violation('mutation-outcome', 'C07.marking-not-found-but-present/%s/%s' % (kind, gtag),
                                    dict(sels=sels, marks=marks, om=sorted(om), gm=sorted(gm)))
                world.probe('marking_not_found_legit')
                return
            if isinstance(out.exc, E.InvalidSelectorError) and (maybe_refused or sels is None):
                world.stat('refused_selector')
                return
            if isinstance(out.exc, E.VersioningError) and form == 'mdef':
                world.stat('mdef_not_versionable')
                return
            raise Violation('mutation-outcome', 'C07.mutation-raised/%s/%s/%s' % (kind, gtag, name),
                            dict(exc=repr(out.exc)[:300], sels=sels, marks=marks, head=hjson))
        res = out.value
        if res is head:
            if noop_ok:
                world.probe('noop_same_object')
                return
            raise Violation('new-version', 'C07.same-object-returned/%s/%s' % (kind, gtag), dict(sels=sels, marks=marks))
        rjson = U.to_json(res)
        rom, rgm = extract(rjson)
        world.changed()
        world.compared()
        if rom != om2 or rgm != gm2:
            what = 'object' if rom != om2 else 'granular'
            raise Violation('pair-set-model', 'C07.model/%s/%s' % (kind, what),
                            dict(sels=sels, marks=marks, flags=kw, before=[sorted(om), sorted(gm)],
                                 want=[sorted(om2), sorted(gm2)], got=[sorted(rom), sorted(rgm)]))
        for k in set(hjson) | set(rjson):
            if k in MARK_KEYS or k == 'modified':
                continue
            if hjson.get(k) != rjson.get(k):
                raise Violation('non-marking-content', 'C07.content-changed/%s' % kind, dict(key=k, before=hjson.get(k), after=rjson.get(k)))
        new_us = U.prec_us(tsparse.us_of(rjson['modified']), ver)
        if not new_us > U.prec_us(old_us, ver):
            raise Violation('new-version', 'C07.not-newer/%s' % ver, dict(old=hjson.get('modified'), new=rjson['modified']))
        st['head'] = res

    # -- queries -------------------------------------------------------------------
    def q_get(self, world, st, op, fnc, sarg, sels, om, gm, maybe_refused, paths):
        inh, desc = bool(op.get('inh')), bool(op.get('desc'))
        kw = {}
        use_ref, use_lang = op.get('use_ref', True), op.get('use_lang', True)
        if sels is None:
            out = call(fnc('get_markings'), None)
            want = set(om)
        else:
            if not use_ref or not use_lang:
                kw = {'marking_ref': use_ref, 'lang': use_lang}
                world.probe('switch_excludes_kind')
            out = call(fnc('get_markings'), sarg, inh, desc, **kw)
            want = model_get(om, gm, sels, inh, desc, use_ref, use_lang)
            if inh:
                want |= om
                if om:
                    world.probe('inherited_from_object_level')
        if not out.ok:
            if isinstance(out.exc, self.stix2.exceptions.InvalidSelectorError) and maybe_refused:
                world.stat('refused_selector')
                return
            raise Violation('query-total', 'C07.get-raised/%s' % type(out.exc).__name__, dict(exc=repr(out.exc)[:300], sels=sels))
        got = set(out.value)
        if om or gm:
            world.compared()
        self.prefix_probe(world, sels, gm, inh, desc)
        world.state(st['d']['ver'], st['d']['form'], 'get', sels is None, inh, desc, bool(want))
        world.log(op='get', sels=sels, inh=inh, desc=desc, n=len(got))
        if len(out.value) != len(got):
            raise Violation('query-model', 'C07.get/duplicates', dict(got=sorted(out.value)))
        if got != want:
            cause = 'other'
            if sels is not None and got - want and self.prefix_explains(sels, gm, inh, desc, got - want, use_ref, use_lang):
                cause = 'prefix-ancestry'
            raise Violation('query-model', 'C07.get/%s' % cause,
                            dict(sels=sels, inh=inh, desc=desc, flags=kw, want=sorted(want), got=sorted(got), om=sorted(om), gm=sorted(gm)))

    def prefix_explains(self, sels, gm, inh, desc, surplus, use_ref=True, use_lang=True):
        """True iff string-prefix ancestry (instead of path-tree ancestry) yields exactly the surplus values."""
        extra = set()
        for (s, k, v) in gm:
            if (k == 'ref' and not use_ref) or (k == 'lang' and not use_lang):
                continue
            for u in sels:
                if (inh and u.startswith(s) and not is_ancestor(s, u)) or (desc and s.startswith(u) and not is_ancestor(u, s)):
                    extra.add(v)
        return bool(surplus) and surplus <= extra

    def prefix_probe(self, world, sels, gm, inh, desc):
        if not sels:
            return
        for (s, _, _) in gm:
            for u in sels:
                if u != s and inh and u.startswith(s) and not is_ancestor(s, u):
                    world.probe('prefix_sibling_queried_inherited')
                if u != s and desc and s.startswith(u) and not is_ancestor(u, s):
                    world.probe('prefix_sibling_queried_descendants')

    def q_is_marked(self, world, st, op, fnc, marks, sarg, sels, om, gm, maybe_refused):
        inh, desc = bool(op.get('inh')), bool(op.get('desc'))
        m = marks[0] if (marks and op.get('marks')) else None
        if sels is None:
            out = call(fnc('is_marked'), m, None)
            reported = set(om)
        else:
            out = call(fnc('is_marked'), m, sarg, inh, desc)
            reported = model_get(om, gm, sels, inh, desc)
            if inh:
                reported |= om
        if not out.ok:
            if isinstance(out.exc, self.stix2.exceptions.InvalidSelectorError) and maybe_refused:
                world.stat('refused_selector')
                return
            raise Violation('query-total', 'C07.is_marked-raised/%s' % type(out.exc).__name__, dict(exc=repr(out.exc)[:300], sels=sels))
        want = (m in reported) if m is not None else bool(reported)
        if om or gm:
            world.compared()
        self.prefix_probe(world, sels, gm, inh, desc)
        world.state(st['d']['ver'], st['d']['form'], 'is_marked', sels is None, inh, desc, m is None, want)
        world.log(op='is_marked', sels=sels, m=m, inh=inh, desc=desc, got=bool(out.value))
        if bool(out.value) != want:
            # agreement with the library's own get_markings under the same options (model-free statement of the property)
            own = call(fnc('get_markings'), sarg, inh, desc) if sels is not None else call(fnc('get_markings'), None)
            own_says = None
            if own.ok:
                own_says = (m in set(own.value)) if m is not None else bool(own.value)
            cause = 'disagrees-with-get_markings' if own_says is not None and own_says != bool(out.value) else 'disagrees-with-model'
            if cause == 'disagrees-with-get_markings' and inh and sels is not None:
                cause += '/inherited'
            raise Violation('queries-agree', 'C07.is_marked/%s' % cause,
                            dict(marking=m, sels=sels, inh=inh, desc=desc, got=bool(out.value), want=want,
                                 om=sorted(om), gm=sorted(gm)))

    # -- metamorphic probes (independent of the model) -------------------------------
    def meta(self, world, st, op, marks, sels, om, gm, maybe_refused, is_obj):
        M = self.M
        head = st['head']
        which = op.get('meta')
        world.clock.set(world.clock.now, mode='tick', step=2000)
        if sels is None:
            marks = [m for m in marks if kind_of(m) == 'ref'] or [C.MARKING_IDS[0]]
        pairs = lambda o: extract(U.to_json(o))
        if which == 'idempotent':
            a = call(M.add_markings, head, marks, sels)
            if not a.ok:
                return
            b = call(M.add_markings, a.value, marks, sels)
            world.probe('metamorphic_idempotent')
            if not b.ok or pairs(a.value) != pairs(b.value):
                raise Violation('metamorphic', 'C07.meta/add-not-idempotent', dict(sels=sels, marks=marks))
        elif which == 'commute':
            m1, m2 = marks[:1], [C.MARKING_IDS[((op.get('marks') or [0])[0] + 1) % len(C.MARKING_IDS)]]
            a = call(M.add_markings, head, m1, sels)
            b = call(M.add_markings, head, m2, sels)
            if not (a.ok and b.ok):
                return
            ab = call(M.add_markings, a.value, m2, sels)
            ba = call(M.add_markings, b.value, m1, sels)
            world.probe('metamorphic_commute')
            if not (ab.ok and ba.ok) or pairs(ab.value) != pairs(ba.value):
                raise Violation('metamorphic', 'C07.meta/add-order-dependent', dict(sels=sels, marks=[m1, m2]))
        elif which == 'set_eq_clear_add':
            s1 = call(M.set_markings, head, marks, sels)
            c1 = call(M.clear_markings, head, sels)
            if not (s1.ok and c1.ok):
                return
            a1 = call(M.add_markings, c1.value, marks, sels)
            world.probe('metamorphic_set_eq_clear_add')
            if not a1.ok or pairs(s1.value) != pairs(a1.value):
                raise Violation('metamorphic', 'C07.meta/set-ne-clear-add', dict(sels=sels, marks=marks))
        else:
            # removing what was just added restores the previous set (when it was not there before)
            fresh = [m for m in marks if (m not in om if sels is None else all((s, kind_of(m), m) not in gm for s in sels))]
            if not fresh:
                return
            a = call(M.add_markings, head, fresh, sels)
            if not a.ok:
                return
            r = call(M.remove_markings, a.value, fresh, sels)
            world.probe('remove_restores')
            if not r.ok or pairs(r.value) != pairs(head):
                raise Violation('metamorphic', 'C07.meta/remove-does-not-restore', dict(sels=sels, marks=fresh,
                                                                                      exc=repr(r.exc)[:200] if not r.ok else None))
        world.compared()
        world.log(op='meta', which=which)


PROFILE = C07()
