"""C11 - memory store, filesystem store and a plain list agree over any add history (engine `storeworld`).

Simulator-owned: add/read history, the simulated disk (readdir order, injected I/O errors, byte-exact
short/torn writes, process crash + restart), save/load of the memory store.
"""
import json
import os

from . import Profile, COMPONENTS_COMMON
from .. import catalog as C
from .. import common as U
from .. import storeworld as SW
from .. import tsparse
from ..core import Violation, call
from ..seams import SimCrash

KINDS = [('sdo', 6), ('sco', 2), ('marking', 1), ('custom', 2), ('unreg', 3), ('cobs', 1)]
OPS = ['add', 'get', 'all_versions', 'query_all', 'query_type', 'query_id', 'save_load', 'restart', 'load_into', 'rebuild_memory',
       'load_single', 'query_ts', 'stray', 'chdir']
FORMS_M = ['single', 'single', 'list', 'bundle_obj', 'bundle_dict']
FORMS_F = ['single', 'single', 'list', 'bundle_obj', 'bundle_dict', 'text', 'bundle_text']


class C11(Profile):
    pid = 'C11'
    needs_disk = True
    owns_registries = True
    tiers = {'quick': 3000, 'thorough': 300000}
    wall_cap = {'quick': 1200, 'thorough': 6 * 3600}
    probes = ['stray_entry_in_store_directory', 'older_version_added_after_newer', 'bundle_form', 'text_form', 'unregistered_dict_versioned',
              'save_dir_path', 'torn_write_then_restart', 'enospc_mid_list', 'exact_readd', 'read_under_torn_file', 'failed_write_cleaned_up', 'timestamp_filter_respelled',
              'save_load_compared', 'utf16_save', 'bundlify_store', 'fault_on_read_fired', 'mixed_versions_in_memory',
              'add_resolved_by_observation', 'same_instant_respelled', 'loaded_into_nonempty_store', 'memory_store_constructed_with_data', 'single_object_file_loaded', 'file_vanished_under_reader']
    rule = ('plans: a pool of <=12 ids x <=5 versions (versioned SDO/SRO of 2.0 and 2.1, 2.1 SCOs, marking definitions, registered '
            'custom type, unregistered dict-kept type) and 5-40 ops (adds in every documented form to a MemoryStore and a '
            'FileSystemStore on the simulated disk, reads, save/load, restart, repair); every 5th run injects I/O faults / crashes. '
            'non-trivial = >=1 add acknowledged AND >=1 read compared with the list model on a non-empty expectation; '
            'distinct = distinct plan digests')
    state_measure = 'distinct (store, op, form/fault class, outcome class, #versions-of-id bucket) tuples'
    assumptions = ['completed write()s survive a process crash (no power-loss model: the code never fsyncs and no property promises it)',
                   'two different contents with the same (id, modified) and different contents for one unversioned id are never generated (STIX leaves them undefined)',
                   'acceptance policy of add() is not judged: an add that raises is resolved by observation']
    components = dict(COMPONENTS_COMMON,
                      real=COMPONENTS_COMMON['real'] + ['stix2.datastore.memory', 'stix2.datastore.filesystem', 'tmpfs under /dev/shm (real directory semantics)'],
                      simulated=COMPONENTS_COMMON['simulated'] + ['readdir order', 'file time stamps (disk-owned clock, plan-chosen granularity)', 'I/O error injection (EIO/ENOSPC/EACCES)', 'short/torn writes',
                                                                  'process crash + restart'])

    # ------------------------------------------------------------------ generation
    def generate(self, rng, index, tier):
        faults = (index % 5 == 4)
        cfg = {
            'm_allow_custom': rng.random() < 0.9,
            'fs_allow_custom': U.weighted(rng, [(True, 6), (None, 2), (False, 1)]),
            'bundlify': rng.random() < 0.25,
            'faults': faults,
            'spelling_knob': rng.random() < 0.3,
            'mtime_gran': rng.choice([1, 1, 4, 0]),
            'early_parse': rng.random() < 0.3,
            'rel_path': rng.random() < 0.25,
        }
        n_ids = rng.randrange(2, 13)
        pool = SW.gen_pool(rng, index, n_ids, rng.choice([1, 2, 3, 5]), KINDS, digits_mixed=cfg['spelling_knob'],
                           upper_ids=rng.choice([0, 0, 0.3, 1.0]))
        kinds = U.swarm_weights(rng, OPS, keep=0.8, must=('add',))
        kinds = [(k, w * (4 if k == 'add' else 1) * (0.3 if k in ('save_load', 'restart', 'load_into', 'rebuild_memory', 'load_single', 'stray', 'chdir') else 1)) for k, w in kinds]
        ops = []
        nops = rng.randrange(5, 41)
        for _ in range(nops):
            kind = U.weighted(rng, kinds)
            op = {'op': kind, 'ls_key': rng.randrange(0, 1000) if rng.random() < 0.8 else 0}
            if kind == 'add':
                store = rng.choice(['M', 'F', 'F'])
                form = rng.choice(FORMS_M if store == 'M' else FORMS_F)
                n = 1 if form in ('single', 'text') else rng.randrange(1, 6)
                items = []
                ver = None
                for _ in range(n):
                    k = rng.randrange(n_ids)
                    if form.startswith('bundle'):
                        cand = [i for i in range(n_ids) if ver is None or pool[i]['ver'] == ver]
                        k = rng.choice(cand)
                        ver = pool[k]['ver']
                    j = rng.randrange(SW.n_versions(pool[k]))
                    items.append({'k': k, 'j': j, 'as': rng.choice(['obj', 'dict']),
                                  'respell': cfg['spelling_knob'] and rng.random() < 0.4})
                op.update(store=store, form=form, items=items, pretty=rng.random() < 0.7, both=rng.random() < 0.3)
                if faults and store == 'F' and rng.random() < 0.5:
                    op['fault'] = SW.gen_fault(rng, SW.WRITE_FAULTS, max_nth=min(3, n))
                    bigs = [i for i, it in enumerate(items) if pool[it['k']].get('big')]
                    if bigs and op['fault']['call'] == 'write' and rng.random() < 0.7:
                        # land the fault in a later write buffer of a file that needs several
                        op['fault'].update(nth=bigs[0], chunk=rng.choice([1, 1, 2]))
            elif kind in ('get', 'all_versions', 'query_type', 'query_id', 'query_ts'):
                op.update(store=rng.choice(['M', 'F']), k=rng.randrange(n_ids + 1))
                if kind == 'query_ts':
                    op.update(j=rng.randrange(8), cmp=rng.choice(['=', '>=', '<=', '>', '<']), spell=rng.choice(['short', 'min3', 'six']),
                              prop=rng.choice(['modified', 'modified', 'created']))
                if faults and op['store'] == 'F' and rng.random() < 0.3:
                    op['fault'] = SW.gen_fault(rng, SW.READ_FAULTS)
            elif kind == 'chdir':
                op.update(n=rng.randrange(100))
            elif kind == 'stray':
                op.update(k=rng.randrange(n_ids), n=rng.randrange(100), where=rng.choice(['type', 'type', 'type', 'skeleton', 'root']))
            elif kind == 'query_all':
                op.update(store=rng.choice(['M', 'F']))
                if faults and op['store'] == 'F' and rng.random() < 0.3:
                    op['fault'] = SW.gen_fault(rng, SW.READ_FAULTS)
            elif kind == 'save_load':
                op.update(path=rng.choice(['json', 'dir', 'nested']), encoding=rng.choice(['utf-8', 'utf-8', 'utf-16']),
                          adopt=rng.random() < 0.3)
                if faults and rng.random() < 0.3:
                    op['fault'] = SW.gen_fault(rng, [('CRASH', 'write'), ('ENOSPC', 'write'), ('EACCES', 'open_w'), ('EIO', 'open_r')], 0)
                    op['fault']['nth'] = 0
            if faults and rng.random() < 0.08:
                ops.append({'op': 'repair'})
            ops.append(op)
        return {'config': cfg, 'pool': pool, 'ops': ops}

    def simplify(self, op):
        out = []
        if op.get('fault'):
            out.append({k: v for k, v in op.items() if k != 'fault'})
        if op.get('ls_key'):
            out.append(dict(op, ls_key=0))
        if op.get('items') and len(op['items']) > 1:
            for i in range(len(op['items'])):
                out.append(dict(op, items=op['items'][:i] + op['items'][i + 1:]))
        if op.get('both'):
            out.append(dict(op, both=False))
        return out

    def simplify_plan(self, plan):
        cfg = plan['config']
        for k, v in (('bundlify', False), ('fs_allow_custom', True), ('m_allow_custom', True)):
            if cfg.get(k) != v:
                yield dict(plan, config=dict(cfg, **{k: v}))

    # ------------------------------------------------------------------ execution
    def execute(self, plan, world):
        sw = SW.StoreWorld(world, plan, 'C11')
        sw.raw = {}
        sw.nsave = 0
        if plan['config'].get('bundlify'):
            world.probe('bundlify_store')
        for i, op in enumerate(plan['ops']):
            world.op_index = i
            kind = op['op']
            world.stat('op:' + kind)
            if kind == 'add':
                self.op_add(sw, world, op, op['store'])
                if op.get('both'):
                    other = 'F' if op['store'] == 'M' else 'M'
                    if not (other == 'M' and op['form'] in ('text', 'bundle_text')):
                        self.op_add(sw, world, dict(op, fault=None), other)
            elif kind in ('get', 'all_versions', 'query_all', 'query_type', 'query_id', 'query_ts'):
                self.op_read(sw, world, op, kind, op['store'], op.get('k', 0))
            elif kind == 'save_load':
                self.op_save_load(sw, world, op)
            elif kind == 'restart':
                sw.make_fs()
                world.log(op='restart')
            elif kind == 'load_into':
                self.op_load_into(sw, world, op)
            elif kind == 'rebuild_memory':
                self.op_rebuild_memory(sw, world, op)
            elif kind == 'load_single':
                self.op_load_single(sw, world, op)
            elif kind == 'repair':
                self.op_repair(sw, world)
            elif kind == 'stray':
                sw.stray(op['k'], op['n'], op['where'])
            elif kind == 'chdir':
                sw.chdir(op['n'])
            if kind != 'repair':
                self.check_disk(sw, world, op)

    # -- add -----------------------------------------------------------------
    def build_add(self, sw, op, store):
        stix2 = sw.stix2
        pool = sw.pool
        items = []
        for it in op['items']:
            k = it['k'] % len(pool)
            j = it['j'] % SW.n_versions(pool[k])
            form = it['as']
            if op['form'] in ('text', 'bundle_text', 'bundle_dict'):
                form = 'dict'
            val, d = sw.make_input(k, j, form)
            if val is None:
                return None, None
            if it.get('respell') and pool[k]['kind'] == 'unreg' and isinstance(d.get('modified'), str):
                # same instant, other spelling (the object is kept as a dict, so the text is what the store sees)
                us, nd = tsparse.parse(d['modified'])
                alt = tsparse.fmt(us, digits=6) if nd < 6 else tsparse.fmt(us)
                d = dict(d, modified=alt)
                val = json.dumps(d) if isinstance(val, str) else C._copy(d)
                sw.world.probe('same_instant_respelled')
            items.append((val, d, k, j))
        f = op['form']
        if f == 'single':
            arg = items[0][0]
            items = items[:1]
        elif f == 'text':
            arg = json.dumps(items[0][1])
            items = items[:1]
        elif f == 'list':
            arg = [v for v, _, _, _ in items]
        else:
            ver = pool[items[0][2]]['ver']
            bid = C.mkid('bundle', sw.world.op_index + 1000 * pool[0]['id_n'])
            if f == 'bundle_obj':
                B = stix2.v21.Bundle if ver == '2.1' else stix2.v20.Bundle
                o = call(B, objects=[v for v, _, _, _ in items], id=bid, allow_custom=True)
                if not o.ok:
                    sw.world.stat('build_failed')
                    return None, None
                arg = o.value
            else:
                arg = {'type': 'bundle', 'id': bid, 'objects': [d for _, d, _, _ in items]}
                if ver == '2.0':
                    arg['spec_version'] = '2.0'
                arg = json.loads(json.dumps(arg))
                if f == 'bundle_text':
                    arg = json.dumps(arg)
            sw.world.probe('bundle_form')
        if f in ('text', 'bundle_text'):
            sw.world.probe('text_form')
        return arg, items

    def op_add(self, sw, world, op, store):
        arg, items = self.build_add(sw, op, store)
        if arg is None:
            return
        S = sw.store(store)
        model = sw.models[store]
        keys = []
        for _, d, k, j in items:
            key = SW.key_of(d)
            keys.append((key, d))
            if isinstance(d.get('modified'), str):
                sw.raw[key] = d['modified']
            e = sw.pool[k]
            if key in model:
                world.probe('exact_readd')
            if key[1] is not None and any(kk[0] == key[0] and kk[1] is not None and kk[1] > key[1] for kk in model):
                world.probe('older_version_added_after_newer')
            if e['kind'] == 'unreg' and key[1] is not None:
                world.probe('unregistered_dict_versioned')
        before_disk, torn_before = sw.disk_model() if store == 'F' else (None, [])
        sw.disk.begin_op(op.get('ls_key', 0), op.get('fault') if store == 'F' else None)
        sw.disk.mark_op_writes()
        crashed = False
        try:
            if store == 'F':
                out = call(S.add, arg, pretty=op.get('pretty', True))
            else:
                out = call(S.add, arg)
        except SimCrash:
            crashed = True
            out = None
        fired = sw.disk.end_op()
        if fired and (op.get('fault') or {}).get('chunk') and fired[0].endswith('@write'):
            world.stat('multi_chunk_write_fault')     # (this library version hands each file to write() in one piece)
        tag = 'crash' if crashed else out.tag
        world.state(store, 'add', op['form'], fired[0] if fired else '-', tag.split(':')[0])
        world.log(op='add', store=store, form=op['form'], keys=[SW.kstr(k) for k, _ in keys], outcome=tag, fired=fired)
        if crashed:
            world.probe('torn_write_then_restart')
            world.stat('crashes')
            sw.make_memory()
            sw.make_fs()
            self.resolve_fs(sw, world, before_disk)
            return
        if out.ok:
            for key, d in keys:
                model[key] = SW.norm(d)
                if isinstance(d.get('modified'), str):
                    sw.raw[key] = d['modified']
            world.changed()
            if store == 'F':
                dm, torn = sw.disk_model()
                for key, d in keys:
                    if key not in dm:
                        raise Violation('acked-add-stored', 'C11.add-acked-not-stored/F' + ('/after-fault' if fired else ''),
                                        dict(key=SW.kstr(key), form=op['form'], fired=fired))
            if len({e['ver'] for e in (sw.pool[k] for _, _, k, _ in items)}) > 1 and store == 'M':
                world.probe('mixed_versions_in_memory')
        else:
            world.stat('add_raised')
            world.stat('add_raised:' + type(out.exc).__name__)
            if fired and any(f.startswith('ENOSPC') for f in fired) and len(items) > 1:
                world.probe('enospc_mid_list')
            world.probe('add_resolved_by_observation')
            from stix2.datastore import DataSourceError
            ks = [k for k, _ in keys]
            if (store == 'F' and not fired and not sw.torn and isinstance(out.exc, DataSourceError) and len(set(ks)) == len(ks)
                    and not any(k in model for k in ks)):
                # the refusal to overwrite is documented for a version that is already stored - not for a new, distinct one
                raise Violation('new-version-accepted', 'C11.add-refused-new-version/F',
                                dict(keys=[SW.kstr(k) for k in ks], form=op['form'], exc=repr(out.exc)[:300],
                                     stored=sorted(SW.kstr(k) for k in model if k[0] in {x[0] for x in ks})[:6]))
            if store == 'F':
                # an add that FAILED (the process lives on) must not leave a file the source cannot read: from then on every
                # read that touches it would raise and the store would stop agreeing with any list.  (After a crash the
                # truncated file is legitimate in-flight state and is tolerated, see torn_write_then_restart.)
                left = [rel for rel in sw.disk_model()[1] if rel not in torn_before]
                if left:
                    raise Violation('failed-add-clean', 'C11.failed-add-left-unreadable-file/%s' % (fired[0] if fired else type(out.exc).__name__),
                                    dict(files=left[:3], fired=fired, exc=repr(out.exc)[:200], form=op['form']))
                if fired and fired[0].endswith('@write'):
                    world.probe('failed_write_cleaned_up')
                self.resolve_fs(sw, world, before_disk)
            else:
                self.resolve_mem(sw, world, keys)
        # targeted read-back of the touched ids
        for sid in sorted({k[0] for k, _ in keys}):
            self.read_compare(sw, world, store, 'all_versions', sid, after_add=True)
            self.read_compare(sw, world, store, 'get', sid, after_add=True)

    def resolve_fs(self, sw, world, before_disk):
        """After a failed / crashed add: the model adopts exactly what is completely on disk."""
        dm, torn = sw.disk_model()
        model = sw.models['F']
        for key, (nj, rel) in dm.items():
            if key not in model:
                model[key] = nj
        sw.torn = bool(torn)
        if torn:
            world.stat('torn_files', len(torn))

    def resolve_mem(self, sw, world, keys):
        model = sw.models['M']
        for sid in sorted({k[0] for k, _ in keys}):
            o = call(sw.M.all_versions, sid)
            if not o.ok:
                raise Violation('read-total', 'C11.read-raised/M/all_versions/%s' % type(o.exc).__name__, repr(o.exc)[:300])
            seen = {k: nj for k, nj, _ in sw.observe(o.value)}
            for key, d in keys:
                if key[0] == sid and key in seen and key not in model:
                    model[key] = SW.norm(d)

    # -- reads ---------------------------------------------------------------
    def op_read(self, sw, world, op, kind, store, k):
        if k >= len(sw.pool):
            sid = C.mkid('malware', 999999)
            typ = 'malware'
        else:
            sid = SW.pool_id(sw.pool, k)
            typ = sw.pool[k]['type']
        ts = None
        if kind == 'query_ts':
            # a timestamp filter in a spelling other than the serialiser's, together with a type filter for a REGISTERED type
            # (objects kept as plain dicts compare timestamps as text - a listed C12 finding - and the type filter keeps them out)
            e = sw.pool[k] if k < len(sw.pool) else None
            if e is None or e['kind'] in ('unreg', 'sco', 'marking') or not e['versions']:
                world.stat('op_skipped')
                return
            us = e['versions'][op['j'] % len(e['versions'])] if op['prop'] == 'modified' else e['created_us']
            if e['ver'] == '2.0':
                us = tsparse.trunc_ms(us)
            txt = {'short': tsparse.fmt(us), 'min3': tsparse.fmt(us, min_digits=3), 'six': tsparse.fmt(us, digits=6)}[op['spell']]
            ts = (op['prop'], op['cmp'], txt, us)
            world.probe('timestamp_filter_respelled')
        self.read_compare(sw, world, store, kind, sid, typ, op.get('ls_key', 0), op.get('fault'), ts=ts)

    def read_compare(self, sw, world, store, kind, sid, typ=None, ls_key=0, fault=None, after_add=False, ts=None):
        from stix2 import Filter
        S = sw.store(store)
        model = sw.models[store]
        if kind == 'get':
            fn = lambda: S.get(sid)
        elif kind == 'all_versions':
            fn = lambda: S.all_versions(sid)
        elif kind == 'query_all':
            fn = lambda: S.query([])
        elif kind == 'query_type':
            fn = lambda: S.query([Filter('type', '=', typ)])
        elif kind == 'query_ts':
            fn = lambda: S.query([Filter('type', '=', typ), Filter(ts[0], ts[1], ts[2])])
        else:
            fn = lambda: S.query([Filter('id', '=', sid)])
        nvan = len(sw.disk.vanished)
        if not after_add:
            sw.disk.begin_op(ls_key, fault if store == 'F' else None)
            before_files = sw.disk_model()[0] if (store == 'F' and fault and fault.get('kind') == 'VANISH') else None
        out = call(fn)
        fired = [] if after_add else sw.disk.end_op()
        if fired and fired[0].startswith('VANISH'):
            # a file was really deleted under the reader: that version is gone (like an operator deleting it), the read itself
            # must tolerate it silently (documented: file-not-found between listing and open is skipped)
            van = sw.disk.vanished[nvan:]     # this op's, not earlier ones'; a vanished directory takes every file under it along
            gone = {k for k, (nj, rel) in (before_files or {}).items()
                    if any(('fs/' + v == rel or rel.startswith('fs/' + v + '/') or v == rel or rel.startswith(v + '/')) for v in van)}
            for k in gone:
                model.pop(k, None)
            world.probe('file_vanished_under_reader')
            if not out.ok and not (sw.torn and isinstance(out.exc, (TypeError, ValueError))):
                # (a truncated file left by an earlier CRASH explains a decode error on its own - that state is tolerated below)
                raise Violation('read-total', 'C11.read-raised-on-vanished-file/%s/%s' % (kind, type(out.exc).__name__),
                                dict(exc=repr(out.exc)[:300]))
        world.state(store, kind, fired[0] if fired else '-', out.tag.split(':')[0], 'torn' if sw.torn else '')
        if fired:
            world.probe('fault_on_read_fired')
        if not out.ok:
            if fired and isinstance(out.exc, OSError):
                world.stat('read_failed_by_fault')
                world.log(op=kind, store=store, outcome=out.tag, fired=fired)
                return
            if store == 'F' and sw.torn and isinstance(out.exc, (TypeError, ValueError)):
                world.probe('read_under_torn_file')
                world.log(op=kind, store=store, outcome=out.tag, relax='torn')
                return
            raise Violation('read-total', 'C11.read-raised/%s/%s/%s' % (store, kind, type(out.exc).__name__),
                            dict(exc=repr(out.exc)[:400], fired=fired))
        val = out.value
        if kind == 'get':
            want = sw.expected_latest(store, sid)
            if val is None:
                if want is not None:
                    raise Violation('store-equals-list', 'C11.get/missing', dict(store=store, id=sid, want=SW.kstr(want)))
                world.log(op=kind, store=store, outcome='none')
                return
            obs = sw.observe([val])
            if want is None or obs[0][0] != want:
                cause = 'not-latest'
                if want is not None and obs[0][0] == sw.string_order_latest(store, sid, sw.raw) and obs[0][0][0] == sid:
                    cause = 'string-order'
                raise Violation('store-equals-list', 'C11.get/%s' % cause,
                                dict(store=store, id=sid, got=SW.kstr(obs[0][0]), want=want and SW.kstr(want),
                                     versions=sorted(SW.kstr(k) for k in sw.expected_versions(store, sid))))
            sw.expect_eq('get', store, obs, {want: model[want]})
        else:
            if kind == 'all_versions' or kind == 'query_id':
                exp = sw.expected_versions(store, sid)
            elif kind == 'query_all':
                exp = dict(model)
            elif kind == 'query_ts':
                import operator
                cmpf = {'=': operator.eq, '>=': operator.ge, '<=': operator.le, '>': operator.gt, '<': operator.lt}[ts[1]]
                exp = {k: v for k, v in model.items() if v.get('type') == typ and isinstance(v.get(ts[0]), dict) and '$ts' in v[ts[0]]
                       and cmpf(v[ts[0]]['$ts'], ts[3])}
            else:
                exp = {k: v for k, v in model.items() if v.get('type') == typ}
            sw.expect_eq(kind, store, sw.observe(val), exp)
            if exp:
                world.compared()
        world.log(op=kind, store=store, outcome='ok', n=(1 if kind == 'get' else len(val)))

    # -- save / load -----------------------------------------------------------
    def op_save_load(self, sw, world, op):
        stix2 = sw.stix2
        model = sw.models['M']
        if not model:
            world.stat('op_skipped')
            return
        sw.nsave += 1
        n = sw.nsave
        if op['path'] == 'json':
            path = os.path.join(sw.savedir, 'out%d.json' % n)
        elif op['path'] == 'dir':
            path = os.path.join(sw.savedir, 'd%d' % n)
            world.probe('save_dir_path')
        else:
            path = os.path.join(sw.savedir, 'a%d' % n, 'b', 'c.json')
        enc = op.get('encoding', 'utf-8')
        if enc != 'utf-8':
            world.probe('utf16_save')
        sw.disk.begin_op(op.get('ls_key', 0), op.get('fault'))
        sw.disk.mark_op_writes()
        try:
            out = call(sw.M.save_to_file, path, encoding=enc)
        except SimCrash:
            sw.disk.end_op()
            world.stat('crashes')
            world.log(op='save', outcome='crash')
            sw.make_memory()
            sw.make_fs()
            return
        if not out.ok:
            fired = sw.disk.end_op()
            world.log(op='save', outcome=out.tag, fired=fired)
            world.stat('save_raised:' + type(out.exc).__name__)
            return
        saved = out.value
        M2 = stix2.MemoryStore(allow_custom=sw.cfg.get('m_allow_custom', True))
        out2 = call(M2.load_from_file, saved, encoding=enc)
        fired = sw.disk.end_op()
        if not out2.ok:
            if fired:
                world.log(op='load', outcome=out2.tag, fired=fired)
                return
            raise Violation('save-load', 'C11.load-raised/%s' % type(out2.exc).__name__,
                            dict(exc=repr(out2.exc)[:400], path=op['path'], encoding=enc))
        got = call(M2.query, [])
        if not got.ok:
            raise Violation('save-load', 'C11.load-query-raised/%s' % type(got.exc).__name__, repr(got.exc)[:300])
        sw.expect_eq('save_load', 'M2', sw.observe(got.value), dict(model))
        for sid in sorted({k[0] for k in model})[:4]:
            g = call(M2.get, sid)
            want = sw.expected_latest('M', sid)
            if not g.ok or g.value is None or sw.observe([g.value])[0][0] != want:
                raise Violation('save-load', 'C11.save_load/get', dict(id=sid, want=SW.kstr(want)))
        world.probe('save_load_compared')
        if not hasattr(sw, 'exports'):
            sw.exports = []
        sw.exports.append((saved, enc, dict(model)))
        world.log(op='save_load', outcome='ok', n=len(model), path=op['path'], enc=enc)
        if op.get('adopt'):
            sw.M = M2

    def op_rebuild_memory(self, sw, world, op):
        """A new MemoryStore constructed from everything the current one returns (list, Bundle dict or Bundle object as stix_data)."""
        stix2 = sw.stix2
        model = sw.models['M']
        q = call(sw.M.query, [])
        if not q.ok or not q.value:
            world.stat('op_skipped')
            return
        objs = list(q.value)
        how = op.get('ls_key', 0) % 3
        if how == 0:
            data = objs
        elif how == 1:
            data = [json.loads(U.to_text(o)) for o in objs]
        else:
            data = {'type': 'bundle', 'id': C.mkid('bundle', world.op_index + 7), 'objects': [json.loads(U.to_text(o)) for o in objs]}
            if not any('spec_version' in x for x in data['objects']):
                data['spec_version'] = '2.0'
        out = call(stix2.MemoryStore, stix_data=data, allow_custom=sw.cfg.get('m_allow_custom', True))
        world.log(op='rebuild_memory', how=how, outcome=out.tag, n=len(objs))
        if not out.ok:
            if sw.cfg.get('m_allow_custom', True):
                raise Violation('save-load', 'C11.rebuild-memory-raised/%s' % type(out.exc).__name__, dict(exc=repr(out.exc)[:300], how=how))
            return
        sw.M = out.value
        world.probe('memory_store_constructed_with_data')
        self.read_compare(sw, world, 'M', 'query_all', None)

    def op_load_single(self, sw, world, op):
        """load_from_file of a file that holds a single object (documented besides bundles)."""
        pool = sw.pool
        k = op.get('ls_key', 0) % len(pool)
        j = (op.get('ls_key', 0) // 7) % SW.n_versions(pool[k])
        d = SW.content(pool, k, j)
        sw.nsave += 1
        rel = os.path.join('save', 'single%d.json' % sw.nsave)
        sw.disk.raw_write(rel, json.dumps(d).encode('utf-8'))
        out = call(sw.M.load_from_file, os.path.join(sw.disk.root, rel))
        key = SW.key_of(d)
        world.log(op='load_single', key=SW.kstr(key), outcome=out.tag)
        if out.ok:
            sw.models['M'][key] = SW.norm(d)
            world.changed()
            world.probe('single_object_file_loaded')
        else:
            self.resolve_mem(sw, world, [(key, d)])
        self.read_compare(sw, world, 'M', 'all_versions', key[0])
        self.read_compare(sw, world, 'M', 'get', key[0])

    def op_load_into(self, sw, world, op):
        """Load an earlier export into the (non-empty) memory store: the result is the union."""
        saved = getattr(sw, 'exports', [])
        if not saved:
            world.stat('op_skipped')
            return
        path, enc, snap = saved[op.get('ls_key', 0) % len(saved)]
        out = call(sw.M.load_from_file, path, encoding=enc)
        world.log(op='load_into', outcome=out.tag, n=len(snap))
        if not out.ok:
            raise Violation('save-load', 'C11.load-into-raised/%s' % type(out.exc).__name__, dict(exc=repr(out.exc)[:300]))
        for k, v in snap.items():
            sw.models['M'].setdefault(k, v)
        world.probe('loaded_into_nonempty_store')
        self.read_compare(sw, world, 'M', 'query_all', None)

    # -- repair / disk invariant ---------------------------------------------
    def op_repair(self, sw, world):
        dm, torn = sw.disk_model()
        for rel in torn:
            sw.disk.raw_remove(rel)
        sw.torn = False
        world.log(op='repair', removed=len(torn))

    def check_disk(self, sw, world, op):
        """Durability of acknowledged data: every version in the F model is on disk, complete and unaltered;
        nothing that was never added appears."""
        dm, torn = sw.disk_model()
        model = sw.models['F']
        for key, nj in model.items():
            if key not in dm:
                raise Violation('durable', 'C11.durable/lost', dict(key=SW.kstr(key), after=op['op'], torn=torn[:3]))
            if dm[key][0] != nj:
                raise Violation('durable', 'C11.durable/altered', dict(key=SW.kstr(key), after=op['op']))
        for key in dm:
            if key not in model:
                raise Violation('durable', 'C11.phantom', dict(key=SW.kstr(key), after=op['op']))
        sw.torn = bool(torn)


PROFILE = C11()
