"""C19 - custom type registration is exact, exclusive and version-scoped (engine `regworld`).

The process-wide registries are the shared state; the plan is a history of registrations (valid, duplicate,
invalid names, both versions, all four kinds, the extension_name form) interleaved with parsing, lookups,
construction, round trips, versioning and store traffic of custom instances.  Reference model: a plain
dict seeded from a snapshot of the registries; compared in full after every op.
"""
import json
import re

from . import Profile, COMPONENTS_COMMON
from .. import catalog as C
from .. import common as U
from .. import tsparse
from ..core import Violation, call

CATS = ['objects', 'observables', 'markings', 'extensions']
KINDS = {'object': 'objects', 'observable': 'observables', 'marking': 'markings', 'extension': 'extensions'}

FRESH = ['x-sim-a', 'x-sim-b', 'x-sim-cc-dd', 'abc', 'a1b', 'x-sim-9z', 'new-thing', 'x' * 3 + '-' + 'y' * 240]
FRESH_EXT = ['x-sim-a-ext', 'x-sim-b-ext', 'abc-ext', 'new-thing-ext']
BUILTIN = {'objects': ['malware', 'identity', 'relationship', 'marking-definition', 'indicator'],
           'observables': ['file', 'ipv4-addr', 'process'],
           'markings': ['tlp', 'statement'],
           'extensions': ['ntfs-ext', 'archive-ext']}
INVALID = ['X-upper', 'x-Upper', 'x_under', 'x-é', '   ', 'ab', 'x', 'a' * 251, 'x-sim a', 'x.sim', '']
EITHER = ['9-lead', '-lead', 'x--double', 'trail-']          # rules I could not confirm offline: either outcome accepted

# names that end in _ref: one underscore, several, a leading custom prefix, 'ref' also inside the name
REF_NAMES = ['thing_ref', 'x_owner_host_ref', 'dst_host_ref', 'a_b_c_ref', 'ref_ref', 'my_ref_thing_ref', 'x_ref']
PROPSETS = ['legal', 'legal2', 'legal_ref', 'legal_names', 'bad_digit', 'bad_upper_first', 'bad_hyphen', 'bad_short', 'bad_upper_inside',
            'bad_space', 'bad_dot', 'bad_long', 'bad_nonascii', 'ref_nonref', 'refs_nonref', 'empty', 'legal_optional_only', 'legal_own_versioning']
# rule-breaking 2.1 property names, with prefixes that are themselves legal names (id, type, name, created ...)
BAD_NAMES = {
    'bad_digit': ['7count', '9id', '0_x'],
    'bad_upper_first': ['Count', 'Id_tag', 'Name'],
    'bad_hyphen': ['my-count', 'id-tag', 'type-x', 'a-b-c'],
    'bad_short': ['ab', 'x1', 'i'],
    'bad_upper_inside': ['myCount', 'idX', 'identityName', 'typeX', 'nameS'],
    'bad_space': ['id tag', 'my count', 'name '],
    'bad_dot': ['id.value', 'a.b.c', 'created.at'],
    'bad_long': ['a' * 251, 'id' + 'x' * 249],
    'bad_nonascii': ['naïve_prop', 'idé', 'créated'],
}
LEGAL_NAMES = ['id_tag', 'ide', 'idx', 'type_x', 'a_1', 'x' * 250, 'name2', 'created_at', 'abc']


def name_class(name, kind, ver):
    if name in INVALID:
        return 'invalid'
    if name in EITHER:
        return 'either'
    if kind == 'extension' and ver == '2.1' and not (name.endswith('-ext') or name.startswith('extension-definition--')):
        return 'either'      # library rule for extension names; not asserted
    return 'valid'


class C19(Profile):
    pid = 'C19'
    owns_registries = True
    needs_disk = False
    tiers = {'quick': 12000, 'thorough': 600000}
    wall_cap = {'quick': 900, 'thorough': 5 * 3600}
    probes = ['reference_to_registered_custom_type', 'duplicate_refused', 'invalid_name_refused', 'invalid_propname_refused', 'ref_named_nonref_refused',
              'cross_category_name', 'extension_name_form', 'failed_registration_checked', 'parse_registered_custom',
              'parse_unregistered_strict_refused', 'parse_unregistered_custom_mode_dict', 'version_scoped_negative',
              'custom_roundtrip', 'custom_new_version', 'custom_store_roundtrip', 'custom_marking_used', 'custom_extension_used',
              'either_name', 'extension_name_taken', 'toplevel_extension_used', 'two_toplevel_extensions_on_one_object',
              'registered_toplevel_extension_next_to_unregistered', 'custom_instance_with_supplied_extension',
              'supplied_extension_next_to_defining_extension', 'custom_marking_with_empty_definition', 'custom_observable_with_own_versioning_properties']
    rule = ('plans: 20-60 ops: registrations through the four decorators of both spec versions with names from a pool of fresh, already '
            'taken (built-in, earlier in the run, other category) and rule-breaking names and with legal / rule-breaking property lists, the '
            'extension_name form; interleaved with parse (strict/custom mode, version named or not), class_for_type, construction, '
            'round trip, new_version and MemoryStore traffic of custom instances. After every op the full registries are compared with the '
            'model. non-trivial = >=1 successful registration AND >=1 parse/lookup compared against a non-empty set of own registrations; '
            'distinct = distinct plan digests')
    state_measure = 'distinct (op, kind, version, name class, property-set class, expected, outcome) tuples'
    assumptions = ['asserted naming rules are those written in the specification text: type names a-z0-9-, length 3-250; 2.1 property names '
                   'a-z0-9_, length 3-250, starting with a letter; *_ref(s) names only on reference properties',
                   'leading digit/hyphen, double hyphen, trailing hyphen in type names and the -ext suffix rule are NOT asserted (either outcome)',
                   'objects and observables share one name space (both are resolved by `type` in parse); markings and extensions have their own']
    components = dict(COMPONENTS_COMMON, real=COMPONENTS_COMMON['real'] + ['stix2.registration', 'stix2.registry', 'stix2.custom',
                                                                          'stix2.v20/v21 Custom* decorators', 'stix2.datastore.memory'],
                      simulated=COMPONENTS_COMMON['simulated'] + ['process-wide registries snapshot/restore per run'])

    # ------------------------------------------------------------------ generation
    def generate(self, rng, index, tier):
        ops = []
        kinds = U.swarm_weights(rng, ['register', 'parse', 'lookup', 'use'], keep=0.9, must=('register', 'parse'))
        kinds = [(k, w * (3 if k == 'register' else 1)) for k, w in kinds]
        for n in range(rng.randrange(20, 61)):
            kind = U.weighted(rng, kinds) if n > 1 else 'register'
            ver = rng.choice(['2.0', '2.1'])
            rk = rng.choice(['object', 'object', 'observable', 'observable', 'marking', 'extension'])
            pool = FRESH_EXT if rk == 'extension' else FRESH
            r = rng.random()
            if r < 0.55:
                name = rng.choice(pool)
                if rng.random() < 0.8 and len(name) < 246:
                    # mostly version-specific names, so that the same fresh name in both versions stays the minority case
                    name = name[:-4] + '-v' + ver.replace('.', '') + '-ext' if name.endswith('-ext') else name + '-v' + ver.replace('.', '')
            elif r < 0.70:
                name = rng.choice(BUILTIN[KINDS[rk]])
            elif r < 0.80:
                other = {'object': 'observables', 'observable': 'objects'}.get(rk, KINDS[rk])
                name = rng.choice(BUILTIN[other])
            elif r < 0.93:
                name = rng.choice(INVALID)
            else:
                name = rng.choice(EITHER)
            op = {'op': kind, 'kind': rk, 'ver': ver, 'name': name, 'n': index * 100 + n,
                  'props': U.weighted(rng, [(p, 6 if p.startswith('legal') else 1) for p in PROPSETS]),
                  'strict': rng.random() < 0.5, 'pver': rng.choice([None, None, '2.0', '2.1']),
                  'ext_name': rng.random() < 0.12, 'a': rng.randrange(10 ** 6)}
            ops.append(op)
        return {'config': {}, 'ops': ops}

    def simplify(self, op):
        out = []
        if op.get('props') not in (None, 'legal'):
            out.append(dict(op, props='legal'))
        if op.get('ext_name'):
            out.append(dict(op, ext_name=False))
        return out

    # ------------------------------------------------------------------ execution
    def execute(self, plan, world):
        import stix2
        self.s = stix2
        self.world = world
        snap = world.reg.take()
        self.model = {ver: {cat: dict(m) for cat, m in cats.items()} for ver, cats in snap.items()}
        self.mine = {}     # (ver, cat, name) -> class registered by this run
        for i, op in enumerate(plan['ops']):
            world.op_index = i
            world.stat('op:' + op['op'])
            getattr(self, 'op_' + op['op'])(op)
            self.compare_registries(op)

    def compare_registries(self, op):
        shape = self.world.reg.shape()
        prev = getattr(self, 'shape_prev', None)
        if prev is not None:
            mutated = self.world.reg.shape_diff(prev, shape)
            if mutated:
                raise Violation('registries-equal-model', 'C19.registry/class-mutated', dict(classes=mutated[:5], after=op['op']))
        self.shape_prev = shape
        cur = self.world.reg.take()
        for ver in sorted(set(cur) | set(self.model)):
            for cat in CATS:
                a, b = self.model[ver][cat], cur[ver][cat]
                if set(a) != set(b):
                    added, gone = sorted(set(b) - set(a)), sorted(set(a) - set(b))
                    raise Violation('registries-equal-model', 'C19.registry/%s' % ('residue' if added and not gone else 'lost' if gone and not added else 'differs'),
                                    dict(ver=ver, cat=cat, unexpected=added[:4], missing=gone[:4], after=op['op'], kind=op.get('kind'),
                                         ext_name=bool(op.get('ext_name'))))
                for name in a:
                    if a[name] is not b[name]:
                        raise Violation('registries-equal-model', 'C19.registry/replaced', dict(ver=ver, cat=cat, name=name, after=op['op']))

    def build_props(self, op):
        from stix2.properties import IntegerProperty, ListProperty, ObjectReferenceProperty, ReferenceProperty, StringProperty
        ver, kind = op['ver'], op['kind']
        base = [('name', StringProperty(required=True))]
        ps = op['props']
        if kind == 'marking' or kind == 'extension':
            base = [('name', StringProperty(required=True))]
        if ps == 'legal_own_versioning':
            if kind == 'observable' and ver == '2.1':
                # an observable type that declares the versioning properties itself, all optional
                from stix2.properties import BooleanProperty, TimestampProperty
                return base + [('created', TimestampProperty(precision='millisecond', precision_constraint='min')),
                               ('modified', TimestampProperty(precision='millisecond', precision_constraint='min')),
                               ('revoked', BooleanProperty())], 'legal'
            return base + [('note', StringProperty())], 'legal'
        if ps == 'legal_optional_only':
            if kind == 'marking':
                return [('note', StringProperty()), ('level', IntegerProperty())], 'legal'      # nothing required: {} is a valid definition
            return base + [('note', StringProperty())], 'legal'
        if ps == 'legal':
            return base + [('count', IntegerProperty())], 'legal'
        if ps == 'legal2':
            if op['a'] % 2:
                # the same declarations in another order: an x_ name BETWEEN ordinary names (the order of a property list is the
                # author's business; every declared property belongs to the class)
                return base + [('x_note', StringProperty()), ('tags', ListProperty(StringProperty)), ('x_rank', IntegerProperty())], 'legal'
            return base + [('tags', ListProperty(StringProperty)), ('x_note', StringProperty())], 'legal'
        ref_name = REF_NAMES[op['a'] % len(REF_NAMES)]
        obs20 = kind == 'observable' and ver == '2.0'
        if ps == 'legal_ref':
            if op['a'] % 3 == 2:
                # a reference LIST under a *_refs name
                inner = ObjectReferenceProperty(valid_types='file') if obs20 else ReferenceProperty(valid_types='identity', spec_version=ver)
                return base + [(ref_name + 's', ListProperty(inner))], 'legal'
            if obs20:
                return base + [(ref_name, ObjectReferenceProperty(valid_types='file'))], 'legal'
            return base + [(ref_name, ReferenceProperty(valid_types='identity', spec_version=ver))], 'legal'
        if ps == 'legal_names':
            return base + [(LEGAL_NAMES[op['a'] % len(LEGAL_NAMES)], IntegerProperty())], 'legal'
        if ps in BAD_NAMES:
            name = BAD_NAMES[ps][op['a'] % len(BAD_NAMES[ps])]
            cls_ = {'bad_digit': 'bad21-prefix', 'bad_upper_first': 'bad21-prefix', 'bad_short': 'bad21-length',
                    'bad_long': 'bad21-length'}.get(ps, 'bad21-charset')
            if ps == 'bad_nonascii' and not name[0].isascii():
                cls_ = 'bad21-prefix'
            return base + [(name, IntegerProperty())], cls_
        if ps == 'ref_nonref':
            # named like a reference, implemented by something else - incl. the reference class of the OTHER observable generation
            wrong = [StringProperty(), IntegerProperty(),
                     ReferenceProperty(valid_types='identity', spec_version='2.1') if obs20 else ObjectReferenceProperty(valid_types='file'),
                     ListProperty(StringProperty)][op['a'] // len(REF_NAMES) % 4]
            return base + [(ref_name, wrong)], 'ref-nonref'
        if ps == 'refs_nonref':
            wrong = [ListProperty(StringProperty), StringProperty(),
                     ListProperty(ReferenceProperty(valid_types='identity', spec_version='2.1') if obs20 else ObjectReferenceProperty(valid_types='file')),
                     ReferenceProperty(valid_types='identity', spec_version='2.1') if not obs20 else ObjectReferenceProperty(valid_types='file'),
                     ][op['a'] // len(REF_NAMES) % 4]
            return base + [(ref_name + 's', wrong)], 'ref-nonref'
        return [], 'empty'

    def taken(self, ver, kind, name):
        m = self.model[ver]
        cat = KINDS[kind]
        if name in m[cat]:
            return 'same'
        if kind == 'object' and name in m['observables']:
            return 'cross'
        if kind == 'observable' and name in m['objects']:
            return 'cross'
        return None

    def op_register(self, op):
        s, world = self.s, self.world
        ver, kind, name = op['ver'], op['kind'], op['name']
        V = s.v21 if ver == '2.1' else s.v20
        props, pclass = self.build_props(op)
        if kind == 'extension' and ver == '2.1' and op['a'] % 4 == 0 and name.endswith('-ext'):
            name = 'extension-definition--' + C.mkuuid(op['a'] % 3, 'c19ext')
        nclass = name_class(name, kind, ver)
        taken = self.taken(ver, kind, name)
        ext_name = None
        if op.get('ext_name') and ver == '2.1' and kind in ('object', 'observable'):
            # a small pool of extension-definition ids, so that the same id is asked for again later
            ext_name = 'extension-definition--' + C.mkuuid(op['a'] % 3 if op['a'] % 5 else op['n'], 'c19ext')
            if op['a'] % 7 == 0:
                ext_name = 'x-sim-plain-%d-ext' % (op['a'] % 2)       # a legal 2.1 extension name that is not an extension-definition id
            world.probe('extension_name_form')

        # ---- expectation ----
        expect = 'ok'
        why = ''
        if nclass == 'invalid':
            expect, why = 'refused', 'invalid-name'
        elif taken == 'same':
            expect, why = 'refused', 'duplicate'
        elif taken == 'cross':
            expect, why = 'refused', 'duplicate-cross-category'
            world.probe('cross_category_name')
        elif pclass == 'ref-nonref':
            expect, why = 'refused', 'ref-named-nonref'
        elif pclass.startswith('bad21') and ver == '2.1':
            expect, why = 'refused', 'propname/' + pclass[6:]
        elif ext_name and ext_name in self.model[ver]['extensions']:
            expect, why = 'refused', 'duplicate-extension-name'
            world.probe('extension_name_taken')
        elif pclass == 'empty' and kind in ('extension',):
            expect, why = 'refused', 'empty-extension'
        elif pclass == 'empty':
            expect = 'either'
        if nclass == 'either' and expect == 'ok':
            expect = 'either'
            world.probe('either_name')

        def reg():
            if kind == 'object':
                dec = V.CustomObject(name, props, extension_name) if ext_name is None and False else \
                    (V.CustomObject(name, props, extension_name=ext_name) if ext_name else V.CustomObject(name, props))
            elif kind == 'observable':
                kw = {}
                if ver == '2.1':
                    kw['id_contrib_props'] = ['name']
                    if ext_name:
                        kw['extension_name'] = ext_name
                dec = V.CustomObservable(name, props, **kw)
            elif kind == 'marking':
                dec = V.CustomMarking(name, props)
            else:
                dec = V.CustomExtension(name, props)

            @dec
            class Sim(object):
                pass
            return Sim
        out = call(reg)
        world.state('register', kind, ver, nclass, pclass, taken or '-', expect, out.tag.split(':')[0])
        world.log(op='register', kind=kind, ver=ver, name=name[:30], props=op['props'], expect=expect, outcome=out.tag)
        if out.ok:
            if expect == 'refused':
                sig = 'C19.accepted/%s/%s' % (why, kind if why.startswith('duplicate') or why == 'invalid-name' else ver)
                # keep the model in step so that the registry comparison reports this, not a follow-up
                raise Violation('registration-refused', sig, dict(kind=kind, ver=ver, name=name, props=op['props']))
            cat = KINDS[kind]
            self.model[ver][cat][name] = out.value
            if pclass != 'empty':
                self.mine[(ver, cat, name)] = dict(cls=out.value, props=op['props'], kind=kind)
            if ext_name:
                ext_cls = s.registry.class_for_type(ext_name, ver, 'extensions')
                if ext_cls is None:
                    raise Violation('registration-exact', 'C19.extension-name-not-registered', dict(ext=ext_name))
                self.model[ver]['extensions'][ext_name] = ext_cls
            world.changed()
        else:
            world.probe('failed_registration_checked')
            if expect == 'ok':
                raise Violation('registration-accepted', 'C19.refused-valid/%s/%s' % (kind, type(out.exc).__name__),
                                dict(ver=ver, name=name, props=op['props'], exc=repr(out.exc)[:300]))
            if why == 'duplicate':
                world.probe('duplicate_refused')
            elif why == 'invalid-name':
                world.probe('invalid_name_refused')
            elif why.startswith('propname'):
                world.probe('invalid_propname_refused')
            elif why == 'ref-named-nonref':
                world.probe('ref_named_nonref_refused')

    # -- parse / lookup ------------------------------------------------------------------
    def owner(self, ver, name):
        m = self.model.get(ver)
        if not m:
            return None, None
        if name in m['objects']:
            return m['objects'][name], 'objects'
        if name in m['observables']:
            return m['observables'][name], 'observables'
        return None, None

    def sample_dict(self, name, ver, cat, n):
        d = {'type': name, 'name': 'n%d' % n}
        if cat == 'observables':
            if ver == '2.1':
                d.update(spec_version='2.1', id='%s--%s' % (name, C.mkuuid(n, 'c19')))
            return d
        d.update(id='%s--%s' % (name, C.mkuuid(n, 'c19')), created='2017-01-01T00:00:00.000Z', modified='2017-01-01T00:00:00.000Z')
        if ver == '2.1':
            d['spec_version'] = '2.1'
        return d

    def op_parse(self, op):
        s, world = self.s, self.world
        mine = sorted(k for k in self.mine if k[1] in ('objects', 'observables'))
        if mine and op['a'] % 4:
            ver0, cat0, name = mine[op['a'] % len(mine)]
            dver = ver0 if op['a'] % 3 else ('2.0' if ver0 == '2.1' else '2.1')    # sometimes shaped for the other version
        else:
            name = op['name']
            dver = op['ver']
            cat0 = 'observables' if op['kind'] == 'observable' else 'objects'
        # shape the sample for the category that owns the name in the shape version, if any
        _, ocat = self.owner(dver, name)
        dcat = ocat or cat0
        d = self.sample_dict(name, dver, dcat, op['n'])
        pver = op.get('pver')
        if pver:
            eff = pver
        elif 'spec_version' in d:
            eff = '2.1'
        elif 'id' not in d:
            eff = '2.0'
        elif name in self.model['2.1']['observables']:
            # documented detection heuristic: an object with an id and no spec_version whose type is a 2.1 observable is a 2.1 SCO
            if name in self.model['2.0']['objects']:
                world.stat('ambiguous_name_parse_skipped')     # the known cross-version ambiguity (see use/roundtrip)
                return
            eff = '2.1'
        else:
            eff = '2.0'
        cls, cat = self.owner(eff, name)
        strict = op.get('strict', True)
        out = call(s.parse, json.loads(json.dumps(d)), allow_custom=not strict, version=pver)
        is_mine = cls is not None and any(v['cls'] is cls for v in self.mine.values())
        world.state('parse', bool(cls), is_mine, strict, pver, eff, out.tag.split(':')[0])
        world.log(op='parse', name=name[:30], eff=eff, strict=strict, owner=bool(cls), outcome=out.tag)
        if self.mine:
            world.compared()
        if cls is None:
            if out.ok:
                if strict or not isinstance(out.value, dict):
                    raise Violation('parse-exact', 'C19.parse/unregistered-accepted/%s' % eff,
                                    dict(name=name, version=pver, strict=strict, got=type(out.value).__name__))
                world.probe('parse_unregistered_custom_mode_dict')
            else:
                if not strict and isinstance(out.exc, s.exceptions.ParseError):
                    raise Violation('parse-exact', 'C19.parse/custom-mode-refused-unregistered', dict(name=name, version=pver))
                world.probe('parse_unregistered_strict_refused')
                if any(k[2] == name for k in self.mine):
                    world.probe('version_scoped_negative')
            return
        if out.ok:
            if isinstance(out.value, dict) or type(out.value) is not cls:
                raise Violation('parse-exact', 'C19.parse/wrong-class',
                                dict(name=name, eff=eff, got=type(out.value).__module__ + '.' + type(out.value).__name__,
                                     want=cls.__module__ + '.' + cls.__name__, cat=cat))
            if is_mine:
                world.probe('parse_registered_custom')
        elif is_mine and dver == eff and dcat == cat:
            raise Violation('parse-exact', 'C19.parse/registered-refused/%s' % type(out.exc).__name__,
                            dict(name=name, eff=eff, input=d, exc=repr(out.exc)[:300]))

    def shape_matches(self, d, eff, cat):
        """The sample dict was shaped for the effective version (so a registered class must accept it in strict mode)."""
        if cat == 'observables':
            return ('spec_version' in d) == (eff == '2.1')
        return ('spec_version' in d) == (eff == '2.1')

    def op_lookup(self, op):
        s, world = self.s, self.world
        names = sorted({k[2] for k in self.mine}) + [op['name']]
        name = names[op['a'] % len(names)]
        for ver in ('2.0', '2.1'):
            for cat in CATS:
                got = s.registry.class_for_type(name, ver, cat)
                want = self.model[ver][cat].get(name)
                if got is not want:
                    raise Violation('lookup-exact', 'C19.class_for_type/%s' % cat, dict(name=name, ver=ver, got=repr(got), want=repr(want)))
        if self.mine:
            world.compared()
        world.log(op='lookup', name=name[:30])

    # -- custom instances enjoy the usual guarantees ---------------------------------------
    def use_toplevel(self, op):
        """A registered toplevel-property-extension: its properties become ordinary (non-custom) top-level properties."""
        s, world = self.s, self.world
        from stix2.properties import IntegerProperty
        ext_id = 'extension-definition--' + C.mkuuid(7, 'c19tl')
        if ext_id not in self.model['2.1']['extensions']:
            def reg():
                @s.v21.CustomExtension(ext_id, [('rank', IntegerProperty(required=True)), ('toxicity', IntegerProperty())])
                class TopLevel(object):
                    extension_type = 'toplevel-property-extension'
                return TopLevel
            o = call(reg)
            if not o.ok:
                raise Violation('registration-accepted', 'C19.refused-valid/toplevel-extension/%s' % type(o.exc).__name__, dict(exc=repr(o.exc)[:300]))
            self.model['2.1']['extensions'][ext_id] = o.value
            world.changed()
        n = op['n']
        ext_b = 'extension-definition--' + C.mkuuid(8, 'c19tl')
        if ext_b not in self.model['2.1']['extensions']:
            def regb():
                @s.v21.CustomExtension(ext_b, [('score', IntegerProperty(required=True))])
                class TopLevelB(object):
                    extension_type = 'toplevel-property-extension'
                return TopLevelB
            ob = call(regb)
            if not ob.ok:
                raise Violation('registration-accepted', 'C19.refused-valid/toplevel-extension/%s' % type(ob.exc).__name__, dict(exc=repr(ob.exc)[:300]))
            self.model['2.1']['extensions'][ext_b] = ob.value
        kw = dict(id=C.mkid('identity', n, 'c19'), created='2017-01-01T00:00:00.000Z', modified='2017-01-01T00:00:00.000Z', name='tl',
                  rank=op['a'] % 100, extensions={ext_id: {'extension_type': 'toplevel-property-extension'}})
        if (op['a'] // 6) % 2:
            # both registered toplevel-property extensions on one object, in either order; once valid, once with a wrong-kind value
            both = [(ext_id, {'extension_type': 'toplevel-property-extension'}), (ext_b, {'extension_type': 'toplevel-property-extension'})]
            if (op['a'] // 12) % 2:
                both.reverse()
            kw2 = dict(kw, extensions=dict(both), score=7)
            ok2 = call(lambda: s.v21.Identity(**kw2))
            if not ok2.ok:
                raise Violation('custom-instances', 'C19.use/two-toplevel-construct-refused/%s' % type(ok2.exc).__name__, dict(exc=repr(ok2.exc)[:300]))
            bad2 = call(lambda: s.v21.Identity(**dict(kw2, score={'not': 'a number'})))
            if bad2.ok:
                raise Violation('custom-instances', 'C19.use/toplevel-validation-skipped', dict(score='object'))
            world.probe('two_toplevel_extensions_on_one_object')
        if (op['a'] // 24) % 2:
            # the registered extension next to one that is NOT registered (say, its registration was refused), in either order:
            # the registered one's properties are validated all the same
            unreg = 'extension-definition--' + C.mkuuid(op['a'] % 5, 'c19-unreg-toplevel')
            pair = [(unreg, {'extension_type': 'toplevel-property-extension'}), (ext_id, {'extension_type': 'toplevel-property-extension'})]
            if (op['a'] // 48) % 2:
                pair.reverse()
            kw3 = dict(kw, extensions=dict(pair), other_top='v')
            ok3 = call(lambda: s.v21.Identity(**kw3))
            if not ok3.ok:
                raise Violation('custom-instances', 'C19.use/toplevel-next-to-unregistered-refused/%s' % type(ok3.exc).__name__, dict(exc=repr(ok3.exc)[:300]))
            if ok3.value['rank'] != op['a'] % 100:
                raise Violation('custom-instances', 'C19.use/toplevel-validation-skipped', dict(rank=repr(ok3.value['rank']), next_to='unregistered'))
            bad3 = call(lambda: s.v21.Identity(**dict(kw3, rank='not-a-number')))
            if bad3.ok:
                raise Violation('custom-instances', 'C19.use/toplevel-validation-skipped', dict(rank='text', next_to='unregistered', order=[k for k, _ in pair]))
            world.probe('registered_toplevel_extension_next_to_unregistered')
        o = call(lambda: s.v21.Identity(**kw))
        if not o.ok:
            raise Violation('custom-instances', 'C19.use/toplevel-construct-refused/%s' % type(o.exc).__name__, dict(exc=repr(o.exc)[:300]))
        obj = o.value
        if obj.has_custom:
            raise Violation('custom-instances', 'C19.use/toplevel-flagged-custom', dict(obj=obj.serialize()[:300]))
        text = obj.serialize()
        back = call(s.parse, text)
        if not back.ok or type(back.value) is not type(obj) or back.value != obj or back.value.serialize() != text:
            raise Violation('custom-instances', 'C19.use/toplevel-roundtrip', dict(text=text[:300], exc=repr(back.exc)[:200] if not back.ok else None))
        world.clock.set(1600000000000000 + n)
        nv = call(obj.new_version, toxicity=3)
        if not nv.ok or nv.value['rank'] != obj['rank'] or nv.value.get('toxicity') != 3 or nv.value['id'] != obj['id']:
            raise Violation('custom-instances', 'C19.use/toplevel-new_version', dict(exc=repr(nv.exc)[:200] if not nv.ok else None))
        bad = call(lambda: s.v21.Identity(**dict(kw, rank='not-a-number')))
        if bad.ok:
            raise Violation('custom-instances', 'C19.use/toplevel-validation-skipped', dict(rank=bad.value['rank']))
        unknown = call(lambda: s.v21.Identity(**dict(kw, unknown_top=1)))
        if unknown.ok:
            raise Violation('custom-instances', 'C19.use/toplevel-unknown-property-accepted', dict())
        world.probe('toplevel_extension_used')
        world.compared()
        world.log(op='use_toplevel')

    def op_use(self, op):
        s, world = self.s, self.world
        if op['a'] % 6 == 0:
            return self.use_toplevel(op)
        if not self.mine:
            return
        keys = sorted(self.mine)
        ver, cat, name = keys[op['a'] % len(keys)]
        info = self.mine[(ver, cat, name)]
        cls = info['cls']
        n = op['n']
        if cat in ('objects', 'observables'):
            d = self.sample_dict(name, ver, cat, n)
            d.pop('type')
            if info['props'] == 'legal':
                d['count'] = 3
            elif info['props'] == 'legal2':
                d['tags'] = ['t1', 't2']
            o = call(lambda: cls(**d))
            if not o.ok:
                raise Violation('custom-instances', 'C19.use/construct-refused/%s' % type(o.exc).__name__,
                                dict(name=name, ver=ver, exc=repr(o.exc)[:300], props=info['props']))
            obj = o.value
            text = obj.serialize()
            back = call(s.parse, text)
            if not back.ok or type(back.value) is not cls or back.value != obj or back.value.serialize() != text:
                if ver == '2.0' and cat == 'objects' and name in self.model['2.1']['observables']:
                    raise Violation('custom-instances', 'C19.use/roundtrip/2.0-object-shadowed-by-2.1-observable-of-same-name',
                                    dict(name=name, text=text[:300]))
                raise Violation('custom-instances', 'C19.use/roundtrip/%s' % cat,
                                dict(name=name, ver=ver, exc=repr(back.exc)[:200] if not back.ok else None, text=text[:300]))
            world.probe('custom_roundtrip')
            if cat == 'objects' and not name.startswith('x-') and re.match(r'^[a-z][a-z0-9]*(-[a-z0-9]+)*$', name) and len(name) < 100:
                # a registered object type is a legal target of the generic reference properties of ITS version (an `x-` name is
                # custom content in a reference whatever the registry says, so only other names are asked about) - and of that
                # version only: where the name is not registered, the same reference is refused
                mods = {'2.0': s.v20, '2.1': s.v21}
                rid = obj['id']

                def refs(mod, v):
                    extra = {'labels': ['threat-report']} if v == '2.0' else {}
                    return [('sighting_of_ref', call(lambda: mod.Sighting(sighting_of_ref=rid))),
                            ('object_refs', call(lambda: mod.Report(name='r', published='2017-01-01T00:00:00Z', object_refs=[rid], **extra)))]
                for prop, out in refs(mods[ver], ver):
                    if not out.ok:
                        raise Violation('custom-instances', 'C19.use/reference-to-registered-type-refused/%s/%s' % (ver, prop),
                                        dict(name=name, ver=ver, exc=repr(out.exc)[:300]))
                other = '2.1' if ver == '2.0' else '2.0'
                if name not in self.model[other]['objects'] and name not in self.model[other]['observables']:
                    for prop, out in refs(mods[other], other):
                        if out.ok:
                            raise Violation('custom-instances', 'C19.use/reference-accepted-for-type-registered-in-other-version-only/%s/%s' % (other, prop),
                                            dict(name=name, registered_for=ver))
                world.probe('reference_to_registered_custom_type')
            if info['props'] == 'legal_own_versioning' and cat == 'observables' and ver == '2.1':
                # instances of such a type are versionable like any other object: with `revoked` left unset, under a clock that
                # stands still / steps back / moves by less than a millisecond
                T = 1700000000123456 + n
                stamp = tsparse.fmt(T, digits=6)
                ov = call(lambda: cls(**dict(d, created=stamp, modified=stamp)))
                if not ov.ok:
                    raise Violation('custom-instances', 'C19.use/construct-refused/%s' % type(ov.exc).__name__, dict(name=name, own_versioning=True, exc=repr(ov.exc)[:300]))
                head = ov.value
                for delta in ([0, -300, 1][op['a'] % 3], 0):
                    world.clock.set(T + delta)
                    nv = call(s.versioning.new_version, head, name='renamed')
                    if not nv.ok:
                        raise Violation('custom-instances', 'C19.use/new_version-refused/%s' % type(nv.exc).__name__, dict(name=name, ver=ver, own_versioning=True))
                    old_us = tsparse.us_of(json.loads(head.serialize())['modified'])
                    new_us = tsparse.us_of(json.loads(nv.value.serialize())['modified'])
                    if not new_us > old_us or nv.value['id'] != head['id']:
                        raise Violation('custom-instances', 'C19.use/new_version-wrong', dict(own_versioning=True, old=old_us, new=new_us, clock=T + delta))
                    head = nv.value
                world.probe('custom_observable_with_own_versioning_properties')
            if ver == '2.1' and op['a'] % 4 == 1:
                # an instance that carries an extension of its own (an unregistered property extension, kept as given): a custom
                # type keeps it like a built-in type does - also when the type adds its defining extension (extension_name=)
                xid = 'extension-definition--' + C.mkuuid(op['a'] % 7, 'c19-supplied')
                supplied = {xid: {'extension_type': 'property-extension', 'score': 7, 'tags': ['a']}}
                o2 = call(lambda: cls(**dict(d, extensions=C._copy(supplied))))
                if not o2.ok:
                    raise Violation('custom-instances', 'C19.use/construct-with-extension-refused/%s' % type(o2.exc).__name__,
                                    dict(name=name, exc=repr(o2.exc)[:300]))
                j2 = json.loads(o2.value.serialize())
                if j2.get('extensions', {}).get(xid) != supplied[xid]:
                    raise Violation('custom-instances', 'C19.use/supplied-extension-lost',
                                    dict(name=name, cat=cat, extensions=sorted(j2.get('extensions', {})), defining=getattr(cls, 'with_extension', None)))
                back2 = call(s.parse, o2.value.serialize())
                if not back2.ok or back2.value != o2.value:
                    raise Violation('custom-instances', 'C19.use/roundtrip/%s' % cat, dict(name=name, ver=ver, with_extension=True))
                world.probe('custom_instance_with_supplied_extension')
                if getattr(cls, 'with_extension', None):
                    world.probe('supplied_extension_next_to_defining_extension')
            if cat == 'objects':
                old = tsparse.us_of(json.loads(text)['modified'])
                world.clock.set(old + [-1000000, 0, 1, 999, 1000, 1000000][op['a'] % 6])
                nv = call(obj.new_version, name='renamed')
                if not nv.ok:
                    raise Violation('custom-instances', 'C19.use/new_version-refused/%s' % type(nv.exc).__name__, dict(name=name, ver=ver))
                j2 = json.loads(nv.value.serialize())
                if j2['id'] != obj['id'] or j2['name'] != 'renamed' or not U.prec_us(tsparse.us_of(j2['modified']), ver) > U.prec_us(old, ver):
                    raise Violation('custom-instances', 'C19.use/new_version-wrong', dict(before=json.loads(text), after=j2))
                world.probe('custom_new_version')
            if 'id' in obj:
                st = s.MemoryStore()
                a = call(st.add, json.loads(text))
                g = call(st.get, obj['id']) if a.ok else a
                if not g.ok or g.value is None or type(g.value) is not cls or g.value != obj:
                    raise Violation('custom-instances', 'C19.use/store-roundtrip', dict(name=name, ver=ver))
                world.probe('custom_store_roundtrip')
        elif cat == 'markings':
            V = s.v21 if ver == '2.1' else s.v20
            if info['props'] == 'legal_optional_only':
                # a marking type without required properties, used with an EMPTY definition (as instance or as {}); 2.1 rejects a
                # marking-definition without content unless it carries extensions, so a value is given there
                dfn = (cls() if op['a'] % 2 else {}) if ver == '2.0' else cls(note='n')
                o = call(lambda: V.MarkingDefinition(id=C.mkid('marking-definition', n), created='2017-01-20T00:00:00.000Z',
                                                     definition_type=name, definition=dfn))
                if not o.ok:
                    raise Violation('custom-instances', 'C19.use/marking-construct-refused/%s' % type(o.exc).__name__,
                                    dict(name=name, ver=ver, definition=repr(dfn)[:80], exc=repr(o.exc)[:300]))
                world.probe('custom_marking_with_empty_definition' if ver == '2.0' else 'custom_marking_used')
            else:
                o = call(lambda: V.MarkingDefinition(id=C.mkid('marking-definition', n), created='2017-01-20T00:00:00.000Z',
                                                     definition_type=name, definition=cls(name='m')))
            if o.ok:
                text = o.value.serialize()
                back = call(s.parse, text, version=ver)
                if not back.ok or back.value != o.value:
                    raise Violation('custom-instances', 'C19.use/marking-roundtrip', dict(name=name, ver=ver, text=text[:300]))
                world.probe('custom_marking_used')
        else:
            V = s.v21 if ver == '2.1' else s.v20
            if ver == '2.1':
                o = call(lambda: V.File(name='f.exe', extensions={name: {'name': 'e'}}))
            else:
                o = call(lambda: V.File(name='f.exe', extensions={name: {'name': 'e'}}))
            if o.ok:
                ext = o.value['extensions'][name]
                if type(ext) is not cls:
                    raise Violation('custom-instances', 'C19.use/extension-class', dict(name=name, ver=ver, got=type(ext).__name__))
                world.probe('custom_extension_used')
        world.compared()
        world.log(op='use', name=name[:30], ver=ver, cat=cat)


PROFILE = C19()
