"""Profile registry.  One module per claimed property."""
import importlib

_IDS = ['C05', 'C06', 'C07', 'C11', 'C12', 'C13', 'C14', 'C17', 'C18', 'C19']
_cache = {}


def all_ids():
    out = []
    for pid in _IDS:
        try:
            get(pid)
            out.append(pid)
        except ImportError:
            pass
    return out


def get(pid):
    if pid not in _cache:
        mod = importlib.import_module('sim.profiles.%s' % pid.lower())
        _cache[pid] = mod.PROFILE
    return _cache[pid]


class Profile(object):
    pid = None
    needs_disk = False
    owns_registries = False
    hang_is_violation = False
    tiers = {'quick': 100, 'thorough': 1000}
    wall_cap = {'quick': 900, 'thorough': 6 * 3600}
    probes = []
    rule = ''
    state_measure = ''
    assumptions = []
    components = {}

    def generate(self, rng, index, tier):
        raise NotImplementedError

    def execute(self, plan, world):
        raise NotImplementedError


COMPONENTS_COMMON = {
    'real': ['stix2 (working tree under /repo, imported unmodified)', 'simplejson', 'pytz', 'stix2patterns/antlr4'],
    'simulated': ['wall clock (STIXdatetime.now)', 'uuid.uuid4', 'PYTHONHASHSEED per worker interpreter'],
    'not_run': ['TAXII datastore (taxii2client not installed)', 'workbench', 'equivalence'],
}
