"""C05 - new versions are strictly newer, identity-preserving and exact (engine `lifecycle`).

The simulator owns the wall clock (steered relative to the head's `modified`), uuid4 and the
operation history on 1-4 version chains.  Reference model = the JSON value of the chain head.
"""
import json

from . import Profile, COMPONENTS_COMMON
from .. import catalog as C
from .. import common as U
from .. import tsparse
from ..core import Violation, call
from ..fingerprint import fingerprint, first_difference

YEAR = 31557600 * 1000000
CLOCK_RELS = {
    'far_before': ('m', -10 * YEAR), 'before_1s': ('m', -1000000), 'before_1ms': ('m', -1000),
    'before_999us': ('m', -999), 'before_1us': ('m', -1), 'equal': ('m', 0), 'equal_floor_ms': ('f', 0),
    'floor_plus_999us': ('f', 999), 'floor_plus_1000us': ('f', 1000), 'floor_plus_1001us': ('f', 1001),
    'after_1us': ('m', 1), 'after_499us': ('m', 499), 'after_999us': ('m', 999), 'after_1000us': ('m', 1000),
    'after_1001us': ('m', 1001), 'after_1999us': ('m', 1999), 'after_2000us': ('m', 2000),
    'after_1s': ('m', 1000000), 'far_after': ('m', YEAR),
}
REL_NAMES = sorted(CLOCK_RELS)
T_RELS = [-10 * YEAR, -1000000, -1000, -999, -1, 0, 1, 499, 999, 1000, 1001, 1999, 1000000, YEAR]

NOT_REMOVABLE = {'pattern_version', 'latitude', 'longitude', 'precision', 'summary', 'revoked', 'result', 'analysis_sco_refs'}
TS_KEYS = {'first_seen', 'last_seen', 'valid_from', 'valid_until', 'published', 'first_observed', 'last_observed',
           'start_time', 'stop_time', 'analysis_started', 'analysis_ended', 'submitted'}

OP_KINDS = ['newver', 'revoke', 'mark', 'newver_T', 'illegal', 'remove_custom']


def _changes(rng, ch):
    """A catalog-legal change set for chain description `ch`."""
    ver, typ = ch['ver'], ch['type']
    if ch['form'].startswith('sco'):
        out = {}
        for k, v in (('size', rng.randrange(1, 10 ** 6)), ('mime_type', U.pick_string(rng)),
                     ('name_enc', 'windows-1252'), ('x_note', U.pick_string(rng))):
            if rng.random() < 0.4:
                out[k] = v
        if ch.get('sco_v4') and rng.random() < 0.5:
            out['name'] = U.pick_string(rng)
        return out or {'size': rng.randrange(1, 1000)}
    if ch['form'] == 'custom_obj':
        out = {}
        for k, v in (('name', U.pick_string(rng) or 'n'), ('description', rng.choice([U.pick_string(rng) or 'd', None])),
                     ('labels', rng.choice([['a'], ['b', 'c'], None]))):
            if rng.random() < 0.5:
                out[k] = v
        return out or {'description': 'changed'}
    minimal, rich = C.template(ver, typ)[:2]
    common = C.COMMON_OPT_20 if ver == '2.0' else C.COMMON_OPT_21
    out = {}
    n = rng.choice([1, 1, 2, 3])
    cands = [k for k in list(rich) + list(common)
             if k not in TS_KEYS and k not in ('created_by_ref', 'latitude', 'longitude', 'precision')]
    cands += [k for k, v in minimal.items() if isinstance(v, str) and k in ('name', 'description', 'content', 'opinion') and k != 'opinion']
    for _ in range(n):
        if not cands:
            break
        k = rng.choice(cands)
        act = rng.random()
        base = rich.get(k, common.get(k, minimal.get(k)))
        if act < 0.3 and k not in NOT_REMOVABLE and k not in minimal:
            out[k] = None
        elif isinstance(base, str) and k in ('name', 'description', 'objective', 'abstract', 'explanation', 'content',
                                             'contact_information', 'tool_version', 'version', 'lang'):
            out[k] = rng.choice(['en', 'fr']) if k == 'lang' else U.pick_string(rng)
        elif k == 'confidence':
            out[k] = rng.randrange(0, 101)
        elif k in ('labels', 'aliases', 'authors', 'roles', 'goals'):
            out[k] = [U.pick_string(rng) for _ in range(rng.randrange(1, 4))]
        elif k == 'object_marking_refs':
            out[k] = rng.sample(C.MARKING_IDS, rng.randrange(1, 4))
        elif k == 'external_references':
            out[k] = [{'source_name': U.pick_string(rng), 'external_id': 'X-%d' % rng.randrange(100)}]
        else:
            out[k] = C._copy(base)
    if rng.random() < 0.04:
        out['revoked'] = True
    if rng.random() < 0.25:
        out['x_custom_%d' % rng.randrange(3)] = rng.choice([U.pick_string(rng), rng.randrange(100), ['a', 'b'], {'k': 'v'}, None, None])
    return out or {'labels': ['z']}


def _clock_spec(rng, cfg, st):
    mode = cfg['clock_mode']
    spec = {}
    if mode == 'steer' or (mode in ('per_read', 'ms_gran', 'coarse') and rng.random() < 0.8):
        spec['rel'] = rng.choice(cfg['rels'])
    else:
        if mode == 'stalled':
            spec['abs'] = st['abs']
        elif mode == 'backjump':
            st['n'] += 1
            if st['n'] == cfg['jump_at']:
                st['abs'] -= 3600 * 1000000
            st['abs'] += rng.choice([0, 1, 500, 1000, 5000, 2000000])
            spec['abs'] = st['abs']
        else:  # monotone and fall-through
            st['abs'] += rng.choice([0, 1, 7, 499, 999, 1000, 1001, 15600, 1000000])
            spec['abs'] = st['abs']
    if mode == 'ms_gran':
        spec['gran'] = 1000
    elif mode == 'coarse':
        spec['gran'] = 15600
    elif mode == 'per_read':
        spec['offsets'] = [rng.choice([0, 0, -1, 1, -1000, 1000]) for _ in range(3)] + [-2000000, 5]
    return spec


class C05(Profile):
    pid = 'C05'
    owns_registries = True      # custom_obj chains register their types (restored by the world)
    tiers = {'quick': 6000, 'thorough': 600000}
    wall_cap = {'quick': 900, 'thorough': 5 * 3600}
    probes = ['fudge_branch_2.0', 'fudge_branch_2.1', 'no_fudge_needed', 'clock_before_old', 'dict_chain_len>=3',
              'explicit_modified_sub_ms', 'sco_locked_refused', 'revoked_refused', 'reserialised_head',
              'none_removed_property', 'chain_len>=5', 'granular_marking_as_version_minter', 'remove_custom_stix',
              'unmodifiable_removal_refused', 'custom_registered_type_chain', 'same_name_registered_as_2.1_observable',
              'unmodifiable_names_inside_custom_properties', 'modified_given_as_nothing', 'custom_content_only_in_a_nested_member']
    rule = ('plans are generated from run_seed (1-4 chains over every versionable type of both spec versions in object / '
            'dict / unregistered-dict / SCO forms, 10-60 versioning ops each with a steered clock reading); a run is '
            'non-trivial when >=1 op produced a new version AND >=1 oracle comparison ran on it; distinct = distinct plan digests')
    state_measure = 'distinct (spec version, head form, op kind, clock-relation class, outcome class) tuples'
    assumptions = ['tsparse (own integer timestamp parser) is correct',
                   'catalog templates are valid STIX (checked against the unchanged tree at setup)',
                   'the library serializer is used to observe objects (differential before/after, not as ground truth for instants)']
    components = dict(COMPONENTS_COMMON, real=COMPONENTS_COMMON['real'] + ['stix2.versioning', 'stix2.markings.object_markings'])

    # ------------------------------------------------------------------ generation
    def generate(self, rng, index, tier):
        cfg = {
            'clock_mode': U.weighted(rng, [('steer', 6), ('monotone', 1), ('stalled', 1), ('backjump', 1),
                                           ('ms_gran', 1), ('coarse', 1), ('per_read', 1)]),
            'rels': rng.sample(REL_NAMES, rng.randrange(3, len(REL_NAMES) + 1)),
            'jump_at': rng.randrange(1, 12),
        }
        kinds = U.swarm_weights(rng, OP_KINDS, keep=0.8, must=('newver',))
        kinds = [(k, w if k != 'revoke' else 0.15 * rng.choice([0, 1, 1, 2])) for k, w in kinds]
        nch = rng.choice([1, 1, 2, 3, 4])
        chains = []
        # sometimes every chain of the run has the same type (in both spec versions, as object and as dict): whatever the library
        # remembers about a type from one chain then meets the other
        shared_type = rng.choice(['indicator', 'malware', 'identity', 'campaign', 'relationship', 'report']) if rng.random() < 0.3 else None
        for c in range(nch):
            ver = rng.choice(['2.0', '2.1'])
            form = U.weighted(rng, [('obj', 5), ('dict', 3), ('dict_unreg', 2), ('sco_obj', 1), ('sco_dict', 1), ('custom_obj', 1)])
            shadow_at = None
            if form.startswith('sco'):
                ver = '2.1'
                typ = 'file'
            elif form == 'custom_obj':
                # an object type registered by the run; for a 2.0 type, the same NAME may also be taken (before or in the middle
                # of the run) by a 2.1 observable type - a legal registration that has nothing to do with the chain
                typ = 'x-sim-c05-thing-%d' % c
                if ver == '2.0' and rng.random() < 0.6:
                    shadow_at = rng.choice([0, 0, rng.randrange(1, 20)])
            else:
                typ = shared_type or rng.choice(C.versioned_types(ver))
            minimal, rich = (C.template(ver, typ)[:2] if form not in ('sco_obj', 'sco_dict', 'custom_obj') else ({}, {}))
            common = C.COMMON_OPT_20 if ver == '2.0' else C.COMMON_OPT_21
            base_s = 1483228800 + rng.randrange(0, 10 ** 8)
            mod_us = base_s * 1000000 + rng.choice(C.FRACTIONS)
            created_us = mod_us - rng.choice([0, 0, 1, 1000, 1000000, 86400 * 1000000])
            chains.append(dict(
                ver=ver, form=form, type=typ, id_n=index * 8 + c, mod_us=mod_us, created_us=created_us,
                rich=[k for k in rich if rng.random() < 0.5], common=[k for k in common if rng.random() < 0.4],
                sco_v4=rng.random() < 0.3, no_modified=(form.startswith('dict') and rng.random() < 0.15),
                custom=rng.random() < 0.2, respell=rng.random() < 0.3, shadow_at=shadow_at,
            ))
        st = {'abs': chains[0]['mod_us'] + rng.choice([-5, 0, 3, 1000]), 'n': 0}
        ops = []
        dead = {}
        for _ in range(rng.randrange(10, 61)):
            kind = U.weighted(rng, kinds)
            live = [c for c in range(nch) if dead.get(c, 0) < 3]
            if not live:
                break
            k = rng.choice(live)
            ch = chains[k]
            if k in dead:
                dead[k] += 1
            elif kind == 'revoke':
                dead[k] = 0
            op = {'op': kind, 'chain': k, 'via': rng.choice(['method', 'func']), 'clock': _clock_spec(rng, cfg, st)}
            if kind == 'newver':
                op['changes'] = _changes(rng, ch)
                op['allow_custom'] = rng.choice([None, None, True])
                op['reser'] = rng.random() < 0.15
                if rng.random() < 0.08:
                    # part of the request travels in the constructors' documented custom_properties argument, and names
                    # properties that no request may change
                    op['cp_rider'] = rng.sample(['created_by_ref', 'created', 'modified', 'id', 'type'], rng.randrange(1, 4))
            elif kind == 'mark':
                op['fn'] = rng.choice(['add', 'add', 'remove', 'set', 'clear', 'gadd', 'gadd', 'gclear', 'gset', 'gremove'])
                op['marking'] = rng.sample(C.MARKING_IDS, rng.randrange(1, 3))
                op['sel'] = rng.choice([['type'], ['id'], ['created'], ['type', 'id'], ['labels']])
            elif kind == 'newver_T':
                op['T_rel'] = rng.choice(T_RELS)
                op['T_form'] = rng.choice(['str3', 'str6', 'strmin', 'datetime', 'datetime_offset', 'str3', 'str6', 'strmin', 'datetime', 'none', 'empty'])
                if rng.random() < 0.3:
                    op['changes'] = _changes(rng, ch)
            elif kind == 'illegal':
                op['what'] = rng.choice(['type', 'id', 'created', 'created_by_ref', 'sco_contrib', 'x_no_custom',
                                         'revive', 'sco_contrib_absent', 'sco_contrib_remove'])
                op['variant'] = rng.randrange(12)
            ops.append(op)
        return {'config': cfg, 'chains': chains, 'ops': ops}

    def simplify(self, op):
        out = []
        if op.get('clock') and op['clock'] != {'rel': 'after_1s'}:
            c = {k: v for k, v in op['clock'].items() if k in ('rel', 'abs')}
            if c != op['clock']:
                out.append(dict(op, clock=c))
            out.append(dict(op, clock={'rel': 'after_1s'}))
        if op.get('changes') and len(op['changes']) > 1:
            for k in op['changes']:
                out.append(dict(op, changes={k: op['changes'][k]}))
        if op.get('reser'):
            out.append(dict(op, reser=False))
        return out

    # ------------------------------------------------------------------ execution
    def _make_head(self, world, ch):
        import stix2
        ver, form = ch['ver'], ch['form']
        if form.startswith('sco'):
            d = {'type': 'file', 'spec_version': '2.1', 'name': 'foo-%d.exe' % ch['id_n'], 'size': 10,
                 'created': tsparse.fmt(ch['created_us'], min_digits=3), 'modified': tsparse.fmt(ch['mod_us'], min_digits=3),
                 'revoked': False}
            if ch.get('sco_v4'):
                d['id'] = C.mkid('file', ch['id_n'])
            o = call(stix2.parse, d, allow_custom=True)
            if not o.ok:
                return None
            if form == 'sco_obj':
                return o.value
            d['id'] = o.value['id']
            return d
        if form == 'custom_obj':
            from stix2.properties import ListProperty, StringProperty
            V = stix2.v21 if ver == '2.1' else stix2.v20
            reg = call(lambda: V.CustomObject(ch['type'], [('name', StringProperty(required=True)), ('description', StringProperty()),
                                                            ('labels', ListProperty(StringProperty))])(type('Thing', (object,), {})))
            if not reg.ok:
                return None
            d = {'type': ch['type'], 'id': C.mkid(ch['type'], ch['id_n']), 'name': 'n',
                 'created': tsparse.fmt(tsparse.trunc_ms(ch['created_us']), digits=3), 'modified': tsparse.fmt(tsparse.trunc_ms(ch['mod_us']), digits=3)}
            if ver == '2.1':
                d.update(spec_version='2.1', created=tsparse.fmt(ch['created_us'], min_digits=3), modified=tsparse.fmt(ch['mod_us'], min_digits=3))
            o = call(stix2.parse, d, version=ver)
            world.probe('custom_registered_type_chain')
            return o.value if o.ok else None
        d = C.build(ver, ch['type'], ch['id_n'], ch['created_us'], ch['mod_us'], ch['rich'], ch['common'])
        if ch.get('custom'):
            # custom content at the top level - or, for a third of such heads, only INSIDE the object, in a member that is not the
            # last one of its container (an embedded observable, an external reference): the object is custom all the same
            if ch['id_n'] % 3 == 0 and isinstance(d.get('objects'), dict) and len(d['objects']) > 1:
                first = sorted(d['objects'])[0]
                d['objects'] = dict(d['objects'], **{first: dict(d['objects'][first], x_seen_by='sensor-1')})
                world.probe('custom_content_only_in_a_nested_member')
            elif ch['id_n'] % 3 == 0 and isinstance(d.get('external_references'), list) and len(d['external_references']) > 1:
                d['external_references'] = [dict(d['external_references'][0], x_note='n')] + list(d['external_references'][1:])
                world.probe('custom_content_only_in_a_nested_member')
            else:
                d['x_seed'] = 'custom'
        if form == 'obj':
            o = call(stix2.parse, d, allow_custom=bool(ch.get('custom')))
            return o.value if o.ok else None
        if form == 'dict_unreg':
            d['type'] = 'x-unreg-thing'
            d['id'] = C.mkid('x-unreg-thing', ch['id_n'])
        if ch.get('no_modified'):
            del d['modified']
        elif ch.get('respell') and ver == '2.1':
            # dict heads may spell the same instant with more digits than needed
            d['modified'] = tsparse.fmt(tsparse.us_of(d['modified']), digits=6)
        elif ch.get('respell') and ch['mod_us'] % 1000000 == 0:
            d['modified'] = tsparse.fmt(ch['mod_us'], digits=0)
        return d

    def execute(self, plan, world):
        import stix2
        import stix2.versioning
        import stix2.markings
        V = stix2.versioning
        chains = []
        for ch in plan['chains']:
            head = self._make_head(world, ch)
            if head is None:
                world.stat('head_creation_failed')
            chains.append({'d': ch, 'head': head, 'revoked': False, 'hist': [], 'len': 0})
            if head is not None:
                m = head.get('modified') or head.get('created')
                chains[-1]['hist'].append(U.prec_us(U.instant_us(m), ch['ver']))
        for i, op in enumerate(plan['ops']):
            world.op_index = i
            for c in chains:
                if c['d'].get('shadow_at') == i and c['head'] is not None:
                    from stix2.properties import StringProperty
                    r = call(lambda: stix2.v21.CustomObservable(c['d']['type'], [('value', StringProperty(required=True))], ['value'])(
                        type('Shadow', (object,), {})))
                    world.log(op='register-2.1-observable-of-same-name', type=c['d']['type'], outcome=r.tag)
                    if r.ok:
                        world.probe('same_name_registered_as_2.1_observable')
            st = chains[op['chain'] % len(chains)]
            if st['head'] is None:
                continue
            self._step(world, V, stix2, st, op)

    def _set_clock(self, world, op, old_us):
        spec = op.get('clock') or {'rel': 'after_1s'}
        if 'rel' in spec:
            base, delta = CLOCK_RELS[spec['rel']]
            now = (tsparse.trunc_ms(old_us) if base == 'f' else old_us) + delta
            rel = spec['rel']
        else:
            now = spec['abs']
            d = now - old_us
            rel = 'abs:' + ('before' if d < 0 else 'equal' if d == 0 else 'lt_ms' if d < 1000 else 'ge_ms')
        mode = 'per_read' if 'offsets' in spec else 'fixed'
        world.clock.set(now, mode=mode, offsets=spec.get('offsets', [0]), gran=spec.get('gran', 1))
        return now, rel

    def _step(self, world, V, stix2, st, op):
        ch = st['d']
        ver, form = ch['ver'], ch['form']
        head = st['head']
        is_obj = form in ('obj', 'sco_obj', 'custom_obj')
        kind = op['op']
        world.stat('op:' + kind)
        old_val = head.get('modified') or head.get('created')
        old_us = U.instant_us(old_val)
        now, rel = self._set_clock(world, op, old_us)
        reads0 = world.clock.reads
        fp0 = fingerprint(head)
        hjson = U.to_json(head)

        changes = dict(op.get('changes') or {})
        expect = 'ok'
        mints_clock = True
        if kind == 'newver':
            kwargs = changes
            if op.get('allow_custom') is not None:
                kwargs = dict(kwargs, allow_custom=op['allow_custom'])
            has_x = any(k.startswith('x_') for k in changes if changes[k] is not None)
            head_custom = bool(getattr(head, 'has_custom', False))
            if is_obj and has_x and not (op.get('allow_custom') or (op.get('allow_custom') is None and head_custom)):
                expect = 'refused'
            if is_obj and op.get('allow_custom') is False and head_custom:
                expect = 'either'
            if op.get('cp_rider') and is_obj and expect == 'ok':
                earlier = tsparse.fmt(tsparse.trunc_ms(old_us) - 5000000, digits=3)
                rider = {'x_rank': 2}
                for name in op['cp_rider']:
                    rider[name] = {'created_by_ref': C.IDENT2 if hjson.get('created_by_ref') != C.IDENT2 else C.IDENT, 'created': earlier,
                                   'modified': earlier, 'id': C.mkid(hjson['type'], ch['id_n'] + 555555), 'type': 'x-other-type'}[name]
                kwargs = dict(kwargs, custom_properties=rider)
                # refusing is fine, ignoring the rider is fine; honouring it is not - the identity and strictly-newer oracles below decide.
                # What exactly becomes of the legal part of such a request is not compared.
                expect = 'either'
                changes = None
                world.probe('unmodifiable_names_inside_custom_properties')
            fn = (lambda: head.new_version(**kwargs)) if (op['via'] == 'method' and is_obj) else (lambda: V.new_version(head, **kwargs))
        elif kind == 'revoke':
            fn = (lambda: head.revoke()) if (op['via'] == 'method' and is_obj) else (lambda: V.revoke(head))
            changes = {'revoked': True}
        elif kind == 'mark':
            m = op['marking']
            have = list(hjson.get('object_marking_refs', []))
            f = op['fn']
            if f == 'add':
                fn = lambda: stix2.markings.add_markings(head, m if len(m) > 1 else m[0], None)
                want = set(have) | set(m)
            elif f == 'remove':
                fn = lambda: stix2.markings.remove_markings(head, m, None)
                if have and not set(m) <= set(have):
                    expect = 'refused'
                want = set(have) - set(m)
            elif f == 'set':
                fn = lambda: stix2.markings.set_markings(head, m, None)
                want = set(m)
            elif f == 'clear':
                fn = lambda: stix2.markings.clear_markings(head, None)
                want = set()
            else:
                # granular operations, used here only as version minters (what they do to the pair set is C07's question):
                # a refusal (selector not present, marking not found) is legitimate, the resulting granular_markings are not compared
                sel = [x for x in op.get('sel', ['type']) if x in hjson] or ['type']
                g = {'gadd': lambda: stix2.markings.add_markings(head, m, sel),
                     'gclear': lambda: stix2.markings.clear_markings(head, sel),
                     'gset': lambda: stix2.markings.set_markings(head, m, sel),
                     'gremove': lambda: stix2.markings.remove_markings(head, m, sel)}
                fn = g[f]
                want = None
                expect = 'either'
                world.probe('granular_marking_as_version_minter')
            changes = {'__marks__': sorted(want)} if want is not None else {'granular_markings': '__ignored__'}
        elif kind == 'remove_custom':
            if form.startswith('sco'):
                world.stat('op_skipped')       # these heads carry custom versioning properties that the x_ convention does not cover
                return
            xs = [k for k in hjson if k.startswith('x_')]
            if '"x_seen_by"' in json.dumps(hjson) or '"x_note"' in json.dumps(hjson):
                world.stat('op_skipped')       # remove_custom_stix is documented for toplevel x_ properties; content inside members stays
                return
            if hjson['type'].startswith('x-'):
                out0 = call(V.remove_custom_stix, head)
                if not out0.ok or out0.value is not None:
                    raise Violation('exact-changes', 'C05.remove-custom/custom-type-not-discarded', dict(type=hjson['type']))
                world.log(op=kind, outcome='none')
                return
            if not xs:
                out0 = call(V.remove_custom_stix, head)
                if not out0.ok or out0.value is not head:
                    raise Violation('new-object', 'C05.remove-custom/no-custom-content-not-returned-as-is',
                                    dict(exc=repr(out0.exc)[:200] if not out0.ok else None))
                world.log(op=kind, outcome='same-object')
                return
            fn = lambda: V.remove_custom_stix(head)
            changes = {k: None for k in xs}
            world.probe('remove_custom_stix')
        elif kind == 'newver_T':
            T = old_us + op['T_rel']
            tf = op['T_form']
            if tf == 'str3':
                T = tsparse.trunc_ms(T)
                tv = tsparse.fmt(T, digits=3)
            elif tf == 'str6':
                tv = tsparse.fmt(T, digits=6)
            elif tf == 'strmin':
                tv = tsparse.fmt(T, min_digits=3)
            else:
                import datetime as dt
                import pytz
                tv = dt.datetime(1970, 1, 1, tzinfo=pytz.UTC) + dt.timedelta(microseconds=T)
                if tf == 'datetime_offset':
                    tv = tv.astimezone(dt.timezone(dt.timedelta(hours=5, minutes=30)))     # same instant, other UTC offset
            legal = U.prec_us(T, ver) > U.prec_us(old_us, ver)
            if T % 1000:
                world.probe('explicit_modified_sub_ms')
            expect = 'ok' if legal else 'refused'
            if tf in ('none', 'empty'):
                # `modified` given, but as "nothing": refusing is fine; if it is accepted, the version minted from the clock
                # must be strictly newer like any other (the clock of this op may read before / at / just after the old value)
                tv = None if tf == 'none' else []
                T = None
                expect = 'either'
                world.probe('modified_given_as_nothing')
            kwargs = dict(changes, modified=tv)
            has_x = any(k.startswith('x_') for k in changes if changes[k] is not None)
            if is_obj and has_x and not getattr(head, 'has_custom', False):
                expect = 'refused'
            fn = (lambda: head.new_version(**kwargs)) if (op['via'] == 'method' and is_obj) else (lambda: V.new_version(head, **kwargs))
            mints_clock = T is None
            changes = dict(changes)
            if T is not None:
                changes['__T__'] = T
            else:
                changes = None       # what becomes of the rest of such a request is not compared
        else:  # illegal
            what = op['what']
            expect = 'refused'
            if what == 'type':
                kw = {'type': 'x-other-type'}
            elif what == 'id':
                kw = {'id': C.mkid(hjson['type'], ch['id_n'] + 777777)}
            elif what == 'created':
                kw = {'created': tsparse.fmt(old_us - 5000000, digits=3)}
            elif what == 'created_by_ref':
                kw = {'created_by_ref': C.IDENT2 if hjson.get('created_by_ref') != C.IDENT2 else C.IDENT}
            elif what == 'sco_contrib':
                if not form.startswith('sco') or ch.get('sco_v4'):
                    world.stat('op_skipped')
                    return
                kw = {'name': 'renamed.exe'}
            if what in ('type', 'id', 'created', 'created_by_ref') and op.get('variant', 1) % 3 == 0 and what in hjson:
                # removal (None) of an unmodifiable property is a change to it all the same
                kw = {what: None}
                world.probe('unmodifiable_removal_refused')
                what = what + '=None'
            sig_what = what
            if what in ('type', 'id', 'created', 'created_by_ref', 'sco_contrib') or what.endswith('=None'):
                pass
            elif what in ('sco_contrib_absent', 'sco_contrib_remove'):
                if not form.startswith('sco') or ch.get('sco_v4'):
                    world.stat('op_skipped')
                    return
                if what == 'sco_contrib_remove':
                    kw = {'name': None}
                else:
                    # an id-contributing property the object does not have yet: setting it would change what the id should be
                    kw = [{'hashes': {'MD5': 'd41d8cd98f00b204e9800998ecf8427e'}}, {'parent_directory_ref': C.mkid('directory', 5)},
                          {'extensions': {'ntfs-ext': {'sid': '1'}}}][op.get('variant', 0) % 3]
            elif what == 'x_no_custom':
                if not is_obj or getattr(head, 'has_custom', False):
                    world.stat('op_skipped')
                    return
                kw = {'x_not_allowed': 1}
            else:  # revive
                if not st['revoked']:
                    world.stat('op_skipped')
                    return
                kw = {'revoked': False}
            fn = (lambda: head.new_version(**kw)) if (op['via'] == 'method' and is_obj) else (lambda: V.new_version(head, **kw))
            changes = None
        if expect == 'ok' and kind in ('newver', 'newver_T') and hjson.get('granular_markings'):
            marked = {sel.split('.')[0] for g in hjson['granular_markings'] for sel in g.get('selectors', [])}
            if marked & set(changes or {}):
                expect = 'either'      # changing / removing a property that a granular marking addresses may invalidate the selector
        if st['revoked']:
            expect = 'refused'

        out = call(fn)
        world.state(ver, form, kind, rel, out.tag if not out.ok else 'ok')

        # -- the original is untouched, whatever happened
        fp1 = fingerprint(head)
        if fp1 != fp0:
            raise Violation('original-untouched', 'C05.original-mutated/%s' % kind, first_difference(fp0, fp1))

        if not out.ok:
            world.log(op=kind, outcome=out.tag, rel=rel)
            if expect == 'ok':
                raise Violation('legal-request-accepted', 'C05.legal-refused/%s/%s' % (kind, type(out.exc).__name__),
                                dict(exc=repr(out.exc)[:500], head=hjson, op=op))
            if st['revoked']:
                world.probe('revoked_refused')
            if kind == 'illegal' and op['what'].startswith('sco_contrib'):
                world.probe('sco_locked_refused')
            world.stat('ops_refused')
            return
        res = out.value
        if res is head and kind == 'mark' and op['fn'] in ('gremove', 'gclear') and not hjson.get('granular_markings'):
            world.log(op=kind, outcome='same-object')
            return
        if res is head and kind == 'mark' and op['fn'] == 'remove' and not hjson.get('object_marking_refs'):
            # documented no-op: remove_markings on an unmarked object returns the object itself
            world.log(op=kind, outcome='same-object')
            return
        if expect == 'refused':
            what = sig_what if kind == 'illegal' else op.get('what', kind)
            if st['revoked']:
                what = 'revoked-' + kind
            raise Violation('illegal-request-refused', 'C05.illegal-accepted/%s' % what,
                            dict(head=hjson, op=op, result=U.to_json(res)))
        if res is head:
            raise Violation('new-object', 'C05.same-object-returned/%s' % kind, dict(op=op))

        rjson = U.to_json(res)
        world.changed()
        world.compared()
        # -- identity
        for k in ('type', 'id', 'created_by_ref'):
            if rjson.get(k) != hjson.get(k):
                raise Violation('identity-preserved', 'C05.identity/%s' % k, dict(before=hjson.get(k), after=rjson.get(k)))
        if tsparse.us_of(rjson['created']) != tsparse.us_of(hjson['created']):
            raise Violation('identity-preserved', 'C05.identity/created', dict(before=hjson['created'], after=rjson['created']))
        if is_obj and type(res) is not type(head):
            raise Violation('identity-preserved', 'C05.identity/class', dict(before=type(head).__name__, after=type(res).__name__))
        # -- exactness
        T = None
        if changes is not None:
            for k, v in changes.items():
                if k == '__T__':
                    T = v
                    continue
                if v == '__ignored__':
                    continue
                if k == '__marks__':
                    if sorted(rjson.get('object_marking_refs', [])) != v or ('object_marking_refs' in rjson and not v):
                        raise Violation('exact-changes', 'C05.exact/marking-refs', dict(want=v, got=rjson.get('object_marking_refs')))
                    continue
                if v is None:
                    if k in rjson:
                        raise Violation('exact-changes', 'C05.exact/none-not-removed', dict(key=k, after=rjson[k]))
                    if k in hjson:
                        world.probe('none_removed_property')
                elif rjson.get(k) != v:
                    raise Violation('exact-changes', 'C05.exact/value', dict(key=k, want=v, got=rjson.get(k)))
            for k in set(hjson) | set(rjson):
                if k in changes or k in ('modified', 'created') or (k == 'object_marking_refs' and '__marks__' in changes):
                    continue
                if hjson.get(k) != rjson.get(k):
                    raise Violation('exact-changes', 'C05.exact/other-key-changed',
                                    dict(key=k, before=hjson.get(k), after=rjson.get(k)))
        # -- strictly newer, as values and after serialisation at the version's precision
        new_val = res.get('modified')
        if new_val is None:
            raise Violation('strictly-newer', 'C05.newer/no-modified', dict(result=rjson))
        new_us = U.instant_us(new_val)
        ser_new = U.prec_us(tsparse.us_of(rjson['modified']), ver)
        ser_old = U.prec_us(tsparse.us_of(hjson.get('modified') or hjson['created']), ver)
        if not new_us > old_us:
            raise Violation('strictly-newer', 'C05.newer/value/%s' % ver, dict(old=old_us, new=new_us, clock=now, rel=rel))
        if not ser_new > ser_old:
            raise Violation('strictly-newer', 'C05.newer/serialized/%s' % ver,
                            dict(old=hjson.get('modified'), new=rjson['modified'], clock=now, rel=rel, form=form))
        if is_obj and ver == '2.0' and len(rjson['modified']) != 24:
            raise Violation('strictly-newer', 'C05.newer/precision-2.0', dict(new=rjson['modified']))
        if T is not None and U.prec_us(new_us, ver) != U.prec_us(T, ver):
            raise Violation('exact-changes', 'C05.exact/caller-modified', dict(want=T, got=new_us))
        if st['hist'] and not ser_new > st['hist'][-1]:
            raise Violation('chain-increasing', 'C05.chain/%s' % ver, dict(hist=st['hist'][-3:], new=ser_new))
        st['hist'].append(ser_new)
        st['len'] += 1
        # -- probes
        if mints_clock:
            if world.clock.reads == reads0:
                world.stat('seam_bypass')
            tc = U.prec_us(now - now % (op.get('clock') or {}).get('gran', 1), ver)
            if ser_new != tc and 'offsets' not in (op.get('clock') or {}):
                world.probe('fudge_branch_' + ver)
            else:
                world.probe('no_fudge_needed')
            if now < old_us:
                world.probe('clock_before_old')
        if st['len'] >= 3 and not is_obj:
            world.probe('dict_chain_len>=3')
        if st['len'] >= 5:
            world.probe('chain_len>=5')
        if kind == 'revoke':
            if rjson.get('revoked') is not True:
                raise Violation('exact-changes', 'C05.exact/revoked-flag', dict(result=rjson))
            st['revoked'] = True
        if rjson.get('revoked') is True:
            st['revoked'] = True
        world.log(op=kind, outcome='ok', rel=rel, new=rjson['modified'], old=hjson.get('modified'))
        # -- advance the chain
        if op.get('reser'):
            text = U.to_text(res)
            if is_obj:
                back = call(stix2.parse, text, allow_custom=True)
                if back.ok and not isinstance(back.value, dict):
                    res = back.value
                    world.probe('reserialised_head')
            else:
                res = json.loads(text)
                world.probe('reserialised_head')
        st['head'] = res


PROFILE = C05()
