"""Core of the simulator: seeds, worlds, run execution, minimisation, replay files.

One run = (profile, plan).  The plan is generated up front from one PRNG
seeded by run_seed; executing a plan draws no randomness and reads no real
clock, so the plan *is* the replay artefact.
"""
import collections
import hashlib
import json
import os
import random
import signal
import sys
import time
import traceback
import warnings

VERIF_DIR = os.path.dirname(os.path.dirname(os.path.abspath(__file__)))
REPO = os.environ.get('VERIF_REPO', '/repo')


def import_repo():
    """Make `import stix2` resolve to the working tree under test."""
    if REPO not in sys.path[:1]:
        sys.path.insert(0, REPO)
    warnings.simplefilter('ignore')
    import stix2  # noqa
    got = os.path.dirname(os.path.dirname(os.path.abspath(stix2.__file__)))
    if os.path.realpath(got) != os.path.realpath(REPO):
        raise HarnessError('stix2 imported from %s, expected %s' % (got, REPO))
    return stix2


# --------------------------------------------------------------------------
# verdict plumbing
# --------------------------------------------------------------------------

class Violation(Exception):
    """Raised by oracles only.  Anything else raised by harness code is a harness error."""

    def __init__(self, oracle, signature, detail=None):
        Exception.__init__(self, '%s [%s]' % (oracle, signature))
        self.oracle = oracle
        self.signature = signature
        self.detail = detail


class HarnessError(Exception):
    pass


class RunTimeout(BaseException):
    pass


def run_seed_of(base_seed, prop, tier, index):
    h = hashlib.sha256(('%d:%s:%s:%d' % (base_seed, prop, tier, index)).encode()).digest()
    return int.from_bytes(h[:8], 'big')


def hash_seeds_of(base_seed):
    out = []
    for k in range(4):
        h = hashlib.sha256(('%d:hashseed:%d' % (base_seed, k)).encode()).digest()
        out.append(1 + int.from_bytes(h[:4], 'big') % 4294967294)
    return out


def canon(obj):
    return json.dumps(obj, sort_keys=True, ensure_ascii=True, separators=(',', ':'), default=_json_default)


def _json_default(o):
    if isinstance(o, (set, frozenset)):
        return sorted(o, key=repr)
    if isinstance(o, bytes):
        return o.decode('latin-1')
    if isinstance(o, tuple):
        return list(o)
    return repr(o)


def digest_of(obj):
    return hashlib.sha256(canon(obj).encode()).hexdigest()


class Outcome(object):
    """Result of one call into the library."""
    __slots__ = ('ok', 'value', 'exc')

    def __init__(self, ok, value=None, exc=None):
        self.ok = ok
        self.value = value
        self.exc = exc

    @property
    def tag(self):
        return 'ok' if self.ok else 'raised:' + type(self.exc).__name__


def call(fn, *a, **kw):
    """Call into the library; never lets an Exception escape (BaseExceptions such
    as SimCrash / RunTimeout do escape and are handled by the engines / the runner)."""
    try:
        return Outcome(True, fn(*a, **kw))
    except Exception as e:  # noqa
        return Outcome(False, None, e)


# --------------------------------------------------------------------------
# world
# --------------------------------------------------------------------------

class World(object):
    """Everything a run can touch: seams, log, statistics."""

    def __init__(self, profile, plan):
        self.profile = profile
        self.plan = plan
        self.lines = []
        self.stats = collections.Counter()
        self.states = set()
        self._op_index = -1
        self.clock = None
        self.uuid = None
        self.disk = None
        self.reg = None
        self.nontrivial_change = False
        self.nontrivial_compare = False
        self.warnings = collections.Counter()
        self.group = None      # observations that must agree across the runs of one group (see Profile.group_of)
        self._known = None
        self._noised = set()

    # Profiles announce each operation by setting world.op_index = i.  That is also the point at which the plan's background
    # activity for that operation runs (op['noise'], see noise.py): before the operation, inside the same world.
    @property
    def op_index(self):
        return self._op_index

    @op_index.setter
    def op_index(self, i):
        self._op_index = i
        ops = self.plan.get('ops') or []
        if isinstance(i, int) and 0 <= i < len(ops) and isinstance(ops[i], dict) and ops[i].get('noise') is not None and i not in self._noised:
            self._noised.add(i)
            from . import noise
            name = noise.run(self, ops[i]['noise'])
            self.log(noise=name)

    def __enter__(self):
        from . import seams
        import_repo()
        self.reg = seams.Registries()
        self.modstate = seams.ModuleState()
        self.cwd0 = os.getcwd()          # the working directory is process-wide state too: a run may change it, the world puts it back
        self.clock = seams.SimClock()
        self.clock.install()
        self.uuid = seams.SimUUID(self.plan.get('uuid_seed', 1))
        self.uuid.install()
        if getattr(self.profile, 'needs_disk', False):
            self.disk = seams.SimDisk()
            self.disk.install()
        return self

    def __exit__(self, et, ev, tb):
        try:
            os.chdir(self.cwd0)
            if self.disk is not None:
                self.disk.destroy()
        finally:
            clear_library_caches()
            self.uuid.uninstall()
            self.clock.uninstall()
            self.residue = self.reg.diff()
            self.reg.restore()
            leaked = [x for x in self.modstate.restore() if not x.startswith(('stix2.v20.OBJ_MAP', 'stix2.v21.OBJ_MAP', 'stix2.v20.EXT_MAP', 'stix2.v21.EXT_MAP',
                                                                              'stix2.v20.common.OBJ_MAP', 'stix2.v21.common.OBJ_MAP',
                                                                              'stix2.registry.', 'stix2.v20.observables.', 'stix2.v21.observables.'))
                      or 'MAP' not in x]
            for x in leaked:
                self.stats['module_state_restored:' + x] += 1
        return False

    # -- logging / stats ---------------------------------------------------
    def log(self, **rec):
        rec['i'] = self.op_index
        self.lines.append(canon(rec))

    def stat(self, key, n=1):
        self.stats[key] += n

    def probe(self, name):
        self.stats['probe:' + name] += 1

    def state(self, *key):
        self.states.add(key)

    def report(self, violation):
        """Raise the violation - unless known_findings.json lists exactly this signature as a known finding, in which case it is
        counted (the check prints its KNOWN-FINDING line) and the run goes on, so that a listed finding does not end the
        run and hide whatever else the remaining operations would show.  Only for oracles whose operations are independent
        of one another (the profile decides by calling this instead of raising)."""
        if self._known is None:
            self._known = load_known()
        if (self.profile.pid, violation.signature) in self._known:
            self.stats['known:' + violation.signature] += 1
            self.log(known_finding=violation.signature)
            return
        raise violation

    def changed(self):
        self.nontrivial_change = True

    def compared(self):
        self.nontrivial_compare = True

    def digest(self):
        h = hashlib.sha256()
        for ln in self.lines:
            h.update(ln.encode())
            h.update(b'\n')
        return h.hexdigest()


def clear_library_caches():
    """One run = one fresh process, conceptually: memoisation inside the library (functools caches) must not carry
    state from one run (or one ddmin candidate) into the next, or replays in a fresh interpreter would not reproduce."""
    for name, mod in list(sys.modules.items()):
        if not (name == 'stix2' or name.startswith('stix2.')) or mod is None:
            continue
        for obj in list(vars(mod).values()):
            cc = getattr(obj, 'cache_clear', None)
            if callable(cc):
                try:
                    cc()
                except Exception:
                    pass
            if isinstance(obj, type):
                for sub in list(vars(obj).values()):
                    f = getattr(sub, '__func__', sub)
                    cc = getattr(f, 'cache_clear', None)
                    if callable(cc):
                        try:
                            cc()
                        except Exception:
                            pass


class RunResult(object):
    def __init__(self):
        self.verdict = 'ok'            # ok | violation | harness_error
        self.violation = None          # dict(oracle, signature, op_index, detail)
        self.digest = None
        self.stats = collections.Counter()
        self.states = set()
        self.nontrivial = False
        self.error = None
        self.nops = 0
        self.lines = None
        self.sim = None
        self.group_digest = None


def _alarm(signum, frame):
    raise RunTimeout('run exceeded its CPU-time watchdog')


class WallTimeout(BaseException):
    """Backstop: the run neither finished nor used up its CPU budget within a long wall time (blocked, or the machine is
    overloaded).  Never a verdict - a harness error."""


def _wall_alarm(signum, frame):
    raise WallTimeout()


def execute(profile, plan, keep_lines=False, watchdog=60):
    """Execute one plan in a fresh world.  Pure function of (plan, PYTHONHASHSEED, code)."""
    res = RunResult()
    profile = profile.__class__()      # no state may leak from one run into the next
    world = World(profile, plan)
    # "terminates" is judged on CPU time consumed by this process (a run normally needs well under a second), so that an
    # overloaded machine cannot turn slowness into a verdict; wall time is only a backstop and only ever a harness error
    old = signal.signal(signal.SIGPROF, _alarm)
    old_wall = signal.signal(signal.SIGALRM, _wall_alarm)
    signal.setitimer(signal.ITIMER_PROF, watchdog)
    signal.setitimer(signal.ITIMER_REAL, watchdog * 30)
    try:
        with world:
            try:
                profile.execute(plan, world)
            except Violation as v:
                res.verdict = 'violation'
                res.violation = dict(oracle=v.oracle, signature=v.signature, op_index=world.op_index, detail=v.detail)
                world.log(verdict='violation', oracle=v.oracle, signature=v.signature)
            except RunTimeout:
                hang = getattr(profile, 'hang_is_violation', False)
                if hang:
                    res.verdict = 'violation'
                    res.violation = dict(oracle='terminates', signature='%s.hang' % profile.pid, op_index=world.op_index, detail='watchdog')
                else:
                    res.verdict = 'harness_error'
                    res.error = 'watchdog timeout at op %d' % world.op_index
        if res.verdict == 'ok' and world.residue and not getattr(profile, 'owns_registries', False):
            res.verdict = 'harness_error'
            res.error = 'registry residue after run: %r' % (world.residue[:5],)
    except Violation as v:  # raised by teardown checks
        res.verdict = 'violation'
        res.violation = dict(oracle=v.oracle, signature=v.signature, op_index=world.op_index, detail=v.detail)
    except RunTimeout:
        res.verdict = 'harness_error'
        res.error = 'watchdog timeout (teardown)'
    except WallTimeout:
        res.verdict = 'harness_error'
        res.error = 'wall-clock backstop reached at op %d (blocked or overloaded machine; not a verdict)' % world.op_index
    except Exception:
        res.verdict = 'harness_error'
        res.error = traceback.format_exc()
    finally:
        signal.setitimer(signal.ITIMER_PROF, 0)
        signal.setitimer(signal.ITIMER_REAL, 0)
        signal.signal(signal.SIGPROF, old)
        signal.signal(signal.SIGALRM, old_wall)
    res.digest = world.digest()
    res.stats = world.stats
    res.states = world.states
    res.nontrivial = world.nontrivial_change and world.nontrivial_compare
    res.nops = world.op_index + 1
    res.group_digest = digest_of(world.group) if world.group is not None else None
    if keep_lines:
        res.lines = world.lines
    c = world.clock
    if c is not None:
        res.sim = dict(clock_reads=c.reads, min=c.min_read, max=c.max_read,
                       uuid4=len(world.uuid.handed_out) if world.uuid else 0)
        if world.disk is not None:
            res.stats.update({'fault:' + k: v for k, v in world.disk.fired.items()})
            res.stats.update({'diskcall:' + k: v for k, v in world.disk.calls_total.items()})
    return res


def same_failure(res, viol):
    return (res.verdict == 'violation' and res.violation['oracle'] == viol['oracle']
            and res.violation['signature'] == viol['signature'])


# --------------------------------------------------------------------------
# minimisation (ddmin over ops, then per-op simplification)
# --------------------------------------------------------------------------

def minimise(profile, plan, viol, budget=300):
    tries = [0]
    hang = viol.get('oracle') == 'terminates'
    if hang:
        budget = 14         # every failing candidate burns a whole watchdog period: cut to the failing op, a few halvings, stop

    def fails(p):
        if tries[0] >= budget:
            return False
        tries[0] += 1
        return same_failure(execute(profile, p, watchdog=20 if hang else 60), viol)

    def with_ops(ops):
        q = dict(plan)
        q['ops'] = ops
        return q

    ops = list(plan['ops'])
    # cut everything after the failing op first
    k = viol.get('op_index', len(ops) - 1)
    if 0 <= k < len(ops) - 1 and fails(with_ops(ops[:k + 1])):
        ops = ops[:k + 1]
    n = 2
    while len(ops) >= 2 and tries[0] < budget:
        chunk = max(1, len(ops) // n)
        reduced = False
        for start in range(0, len(ops), chunk):
            cand = ops[:start] + ops[start + chunk:]
            if cand and fails(with_ops(cand)):
                ops = cand
                n = max(n - 1, 2)
                reduced = True
                break
        if not reduced:
            if chunk == 1:
                break
            n = min(len(ops), n * 2)
    plan = with_ops(ops)
    # background activity first: all of it at once, then one operation's at a time
    if any(isinstance(o, dict) and 'noise' in o for o in plan['ops']):
        quiet = [({k: v for k, v in o.items() if k != 'noise'} if isinstance(o, dict) else o) for o in plan['ops']]
        if fails(with_ops(quiet)):
            plan = with_ops(quiet)
        else:
            for i, o in enumerate(list(plan['ops'])):
                if isinstance(o, dict) and 'noise' in o and tries[0] < budget:
                    cand = list(plan['ops'])
                    cand[i] = {k: v for k, v in o.items() if k != 'noise'}
                    if fails(with_ops(cand)):
                        plan = with_ops(cand)
    simp = getattr(profile, 'simplify', None)
    if simp:
        progress = True
        while progress and tries[0] < budget:
            progress = False
            for i in range(len(plan['ops'])):
                for cand_op in simp(plan['ops'][i]):
                    cand = list(plan['ops'])
                    cand[i] = cand_op
                    if fails(with_ops(cand)):
                        plan = with_ops(cand)
                        progress = True
                        break
    simp_plan = getattr(profile, 'simplify_plan', None)
    if simp_plan:
        progress = True
        while progress and tries[0] < budget:
            progress = False
            for cand in simp_plan(plan):
                if fails(cand):
                    plan = cand
                    progress = True
                    break
    return plan, tries[0]


# --------------------------------------------------------------------------
# known findings
# --------------------------------------------------------------------------

def load_known():
    path = os.path.join(VERIF_DIR, 'known_findings.json')
    if not os.path.exists(path):
        return {}
    with open(path) as f:
        data = json.load(f)
    out = {}
    for e in data.get('findings', []):
        if e.get('status') == 'known':
            out[(e['property'], e['signature'])] = e
    return out


# --------------------------------------------------------------------------
# replay files
# --------------------------------------------------------------------------

def write_replay(prop, meta, plan, viol, digest):
    d = os.environ.get('VERIF_REPLAY_DIR') or os.path.join(VERIF_DIR, 'replays')
    os.makedirs(d, exist_ok=True)
    path = os.path.join(d, '%s-%d.json' % (prop, meta['run_seed']))
    doc = dict(meta)
    doc.update(property=prop, plan=plan, violation=viol, digest=digest)
    with open(path, 'w') as f:
        # member order is kept as the plan has it: where order carries meaning (the "first" of several non-preferred hash
        # algorithms, the order of keyword arguments) a re-sorted replay file would not be the run it records
        json.dump(doc, f, indent=1, sort_keys=False, default=_json_default)
    return path


def get_profile(pid):
    from . import profiles
    return profiles.get(pid)


def plan_for(profile, base_seed, tier, index):
    rs = run_seed_of(base_seed, profile.pid, tier, index)
    rng = random.Random(rs)
    plan = profile.generate(rng, index, tier)
    plan.setdefault('uuid_seed', rs & 0xffffffff)
    # background activity between the operations (noise.py): drawn from a PRNG of its own, so the workload the profile
    # generated for this run seed is the same with and without it
    rate = float(os.environ.get('VERIF_NOISE_RATE', '0.07'))
    nrng = random.Random(rs ^ 0x6e6f697365)
    for op in plan.get('ops') or []:
        if isinstance(op, dict) and nrng.random() < rate:
            op['noise'] = nrng.randrange(10 ** 6)
    # plans must be plain JSON: round-trip once so that execution sees exactly what a replay file holds
    return rs, json.loads(json.dumps(plan, default=_json_default))


def now():
    return time.time()
