"""setup_cmd: nothing to build; sanity-check the interpreter, the import path and the frozen catalog."""
import json
import sys


def main():
    from . import core, catalog as C
    stix2 = core.import_repo()
    bad = 0
    for ver in ('2.0', '2.1'):
        for t in C.versioned_types(ver):
            minimal, rich = C.template(ver, t)[:2]
            d = C.build(ver, t, 1, 1500000000123456, 1500000001999999, tuple(rich), ())
            try:
                stix2.parse(d, allow_custom=False)
            except Exception as e:  # noqa
                bad += 1
                print('WARNING catalog template %s/%s does not parse on this tree: %r' % (ver, t, e))
    print('setup ok: python %s, stix2 from %s, catalog templates failing: %d' % (
        sys.version.split()[0], stix2.__file__, bad))
    return 0
