"""Independent STIX timestamp parser/printer (integer arithmetic only).

Nothing here is imported from stix2.  A timestamp is the text
YYYY-MM-DDTHH:MM:SS[.f+]Z ; it is mapped to integer microseconds since
1970-01-01T00:00:00Z plus the number of fractional digits that were written.
"""
import re

_TS = re.compile(r'^(\d{4})-(\d{2})-(\d{2})T(\d{2}):(\d{2}):(\d{2})(?:\.(\d+))?Z$')


def days_from_civil(y, m, d):
    # Howard Hinnant's algorithm, proleptic Gregorian, days since 1970-01-01
    y -= m <= 2
    era = (y if y >= 0 else y - 399) // 400
    yoe = y - era * 400
    doy = (153 * (m + (-3 if m > 2 else 9)) + 2) // 5 + d - 1
    doe = yoe * 365 + yoe // 4 - yoe // 100 + doy
    return era * 146097 + doe - 719468


def civil_from_days(z):
    z += 719468
    era = (z if z >= 0 else z - 146096) // 146097
    doe = z - era * 146097
    yoe = (doe - doe // 1460 + doe // 36524 - doe // 146096) // 365
    y = yoe + era * 400
    doy = doe - (365 * yoe + yoe // 4 - yoe // 100)
    mp = (5 * doy + 2) // 153
    d = doy - (153 * mp + 2) // 5 + 1
    m = mp + (3 if mp < 10 else -9)
    return (y + (m <= 2), m, d)


class BadTimestamp(ValueError):
    pass


def parse(text):
    """text -> (microseconds since epoch, number of fraction digits).

    Fractions longer than 6 digits are truncated to microseconds (digit count
    is still reported in full)."""
    if not isinstance(text, str):
        raise BadTimestamp(repr(text))
    m = _TS.match(text)
    if not m:
        raise BadTimestamp(text)
    y, mo, d, h, mi, s = (int(m.group(i)) for i in range(1, 7))
    frac = m.group(7) or ''
    if not (1 <= mo <= 12 and 1 <= d <= 31 and h < 24 and mi < 60 and s < 61):
        raise BadTimestamp(text)
    us = int((frac + '000000')[:6]) if frac else 0
    days = days_from_civil(y, mo, d)
    return ((days * 86400 + h * 3600 + mi * 60 + s) * 1000000 + us, len(frac))


def us_of(text):
    return parse(text)[0]


def fmt(us, digits=None, min_digits=0):
    """microseconds since epoch -> canonical text.

    digits=None: as few fraction digits as represent the value exactly, but at
    least min_digits.  digits=k: exactly k digits (truncating)."""
    secs, frac = divmod(us, 1000000)
    days, rem = divmod(secs, 86400)
    y, mo, d = civil_from_days(days)
    h, rem = divmod(rem, 3600)
    mi, s = divmod(rem, 60)
    f = '%06d' % frac
    if digits is None:
        f = f.rstrip('0')
        if len(f) < min_digits:
            f = f.ljust(min_digits, '0')
    else:
        f = f[:digits]
    return '%04d-%02d-%02dT%02d:%02d:%02d%s%sZ' % (y, mo, d, h, mi, s, '.' if f else '', f)


def is_timestamp(text):
    try:
        parse(text)
        return True
    except BadTimestamp:
        return False


def trunc_ms(us):
    return us - us % 1000
