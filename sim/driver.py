"""Driver: fans runs out to worker interpreters, aggregates, writes evidence, sets the exit code.

Exit codes: 0 held / 1 violation (prints `VIOLATION property=<id> replay=<path>`) / 2 harness error.
"""
import collections
import json
import math
import os
import shutil
import subprocess
import sys
import tempfile
import time

from . import core

PY = sys.executable
WORKER = os.path.join(os.path.dirname(os.path.abspath(__file__)), 'worker.py')


def _workdir():
    base = '/dev/shm' if os.path.isdir('/dev/shm') and os.access('/dev/shm', os.W_OK) else tempfile.gettempdir()
    return tempfile.mkdtemp(prefix='stix2sim-drv-', dir=base)


def _env(hash_seed):
    env = dict(os.environ)
    env['PYTHONHASHSEED'] = str(hash_seed)
    env['PYTHONDONTWRITEBYTECODE'] = '1'
    env['VERIF_REPO'] = core.REPO
    env.pop('PYTHONPATH', None)
    return env


def make_jobs(prop, tier, base_seed, nruns, workers, chunk_max=4000, want_digests=False, first=0):
    """Jobs = (hash-seed class k, part p).  Run i always belongs to class i % 4, whatever the worker count."""
    hs = core.hash_seeds_of(base_seed)
    parts = max(1, workers // 4, int(math.ceil(nruns / 4.0 / chunk_max)))
    jobs = []
    for k in range(4):
        idx = [i for i in range(first, first + nruns) if i % 4 == k]
        for p in range(parts):
            sl = idx[p::parts]
            if sl:
                jobs.append(dict(property=prop, tier=tier, base_seed=base_seed, indices=sl,
                                 hash_seed=hs[k], want_digests=want_digests))
    return jobs


def run_jobs(jobs, workers, wall_cap, per_job_dump=None):
    """Run jobs in at most `workers` concurrent interpreters.  Returns (results, errors)."""
    wd = _workdir()
    results, errors = [], []
    t0 = time.time()
    try:
        pending = list(enumerate(jobs))
        running = {}
        while pending or running:
            while pending and len(running) < workers:
                n, job = pending.pop(0)
                jp = os.path.join(wd, 'job%d.json' % n)
                rp = os.path.join(wd, 'res%d.json' % n)
                j = dict(job)
                j['deadline'] = t0 + wall_cap
                j['dump_after'] = per_job_dump or (wall_cap + 120)
                with open(jp, 'w') as f:
                    json.dump(j, f)
                errp = open(os.path.join(wd, 'err%d.txt' % n), 'w')
                p = subprocess.Popen([PY, WORKER, jp, rp], env=_env(job['hash_seed']), stdout=errp, stderr=errp,
                                     cwd=core.VERIF_DIR)
                running[n] = (p, rp, errp, job)
            time.sleep(0.02)
            for n in list(running):
                p, rp, errp, job = running[n]
                rc = p.poll()
                if rc is None:
                    if time.time() - t0 > wall_cap + 180:
                        p.kill()
                        errors.append('job %d killed at wall cap' % n)
                        errp.close()
                        del running[n]
                    continue
                errp.close()
                del running[n]
                if rc != 0 or not os.path.exists(rp):
                    tail = open(errp.name).read()[-3000:]
                    errors.append('worker %d died rc=%s: %s' % (n, rc, tail))
                    continue
                with open(rp) as f:
                    r = json.load(f)
                r['job_indices'] = len(job['indices'])
                results.append(r)
    finally:
        shutil.rmtree(wd, ignore_errors=True)
    return results, errors


def aggregate(results):
    agg = dict(runs=0, stats=collections.Counter(), states=set(), plan_digests=set(), violations=[],
               known_hits=collections.Counter(), harness_errors=[], samples=[], digests={}, groups={},
               sim=dict(clock_reads=0, uuid4=0, min=None, max=None), hash_seeds=set(), stopped_early=False,
               worker_wall=0.0, missing=0)
    for r in results:
        agg['runs'] += r['runs']
        agg['missing'] += r['job_indices'] - r['runs']
        agg['stats'].update(r['stats'])
        agg['states'].update(r['states'])
        agg['plan_digests'].update(r['plan_digests'])
        agg['violations'].extend(r['violations'])
        agg['known_hits'].update(r['known_hits'])
        agg['harness_errors'].extend(r['harness_errors'])
        agg['samples'].extend(r['samples'])
        agg['digests'].update(r['digests'])
        agg['groups'].update(r.get('groups', {}))
        agg['hash_seeds'].add(r['hash_seed'])
        agg['stopped_early'] = agg['stopped_early'] or r['stopped_early']
        agg['worker_wall'] += r['wall_s']
        s = r['sim']
        agg['sim']['clock_reads'] += s['clock_reads']
        agg['sim']['uuid4'] += s['uuid4']
        for k, f in (('min', min), ('max', max)):
            if s[k] is not None:
                agg['sim'][k] = s[k] if agg['sim'][k] is None else f(agg['sim'][k], s[k])
    agg['samples'].sort(key=lambda s: (len(s['plan']['ops']), s['run_index']))
    agg['violations'].sort(key=lambda v: v['run_index'])
    return agg


def cross_process_check(profile, prop, tier, base_seed, agg):
    """Runs of one group hold the same workload and executed in interpreters with different PYTHONHASHSEED:
    their group observations must be identical.  A difference is reported as a violation with a replay file."""
    group_of = getattr(profile, 'group_of', None)
    if group_of is None:
        return 0
    by = collections.defaultdict(dict)
    for idx, dg in agg['groups'].items():
        by[group_of(int(idx))][int(idx)] = dg
    compared = 0
    hs = core.hash_seeds_of(base_seed)
    for g, members in sorted(by.items()):
        if len(members) < 2:
            continue
        compared += 1
        if len(set(members.values())) > 1:
            idx = sorted(members)
            rs, plan = core.plan_for(profile, base_seed, tier, idx[0])
            viol = dict(oracle='cross-process', signature='%s.cross-process-observations-differ' % prop, op_index=-1,
                        detail=dict(run_indices=idx, digests=[members[i] for i in idx]))
            meta = dict(base_seed=base_seed, tier=tier, run_index=idx[0], run_seed=rs, hash_seed=str(hs[idx[0] % 4]),
                        hash_seeds=[str(hs[i % 4]) for i in idx], cross_process=True)
            path = core.write_replay(prop, meta, plan, viol, None)
            agg['violations'].append(dict(run_index=idx[0], run_seed=rs, signature=viol['signature'], oracle='cross-process',
                                          replay=path, detail=viol['detail'], ops=len(plan['ops'])))
    return compared


def check(prop, tier, base_seed=None, workers=None, nruns=None, quiet=False):
    from . import tsparse
    t0 = time.time()
    profile = core.get_profile(prop)
    if base_seed is None:
        base_seed = int(os.environ.get('VERIF_SEED', '0') or 0)
    workers = workers or int(os.environ.get('VERIF_WORKERS', '0') or 0) or min(16, os.cpu_count() or 4)
    nruns = nruns or int(os.environ.get('VERIF_RUNS', '0') or 0) or profile.tiers[tier]
    wall_cap = float(os.environ.get('VERIF_WALL_CAP', '0') or 0) or profile.wall_cap[tier]
    jobs = make_jobs(prop, tier, base_seed, nruns, workers)
    results, errors = run_jobs(jobs, workers, wall_cap)
    agg = aggregate(results)
    known = core.load_known()
    cross = cross_process_check(profile, prop, tier, base_seed, agg)
    det = None
    if tier == 'thorough' and not os.environ.get('VERIF_SKIP_DETERMINISM'):
        # a thorough tier refuses to report "held" if its sampled determinism check fails
        det = determinism_sample(prop, 'thorough', base_seed, 48)
        if det['diffs'] or det['errors']:
            errors.append('determinism sample failed: %r' % det)
    wall = time.time() - t0

    stats = agg['stats']
    probes = {k[6:]: v for k, v in stats.items() if k.startswith('probe:')}
    for name in getattr(profile, 'probes', []):
        probes.setdefault(name, 0)
    faults = {k[6:]: v for k, v in stats.items() if k.startswith('fault:')}
    ops_by_kind = {k[3:]: v for k, v in stats.items() if k.startswith('op:')}
    other = {k: v for k, v in stats.items() if not k.startswith(('probe:', 'fault:', 'op:', 'diskcall:'))}
    diskcalls = {k[9:]: v for k, v in stats.items() if k.startswith('diskcall:')}
    sim = agg['sim']
    sim_time = dict(clock_reads=sim['clock_reads'], uuid4_draws=sim['uuid4'])
    if sim['min'] is not None:
        sim_time.update(min_instant=tsparse.fmt(sim['min']), max_instant=tsparse.fmt(sim['max']),
                        simulated_span_s=(sim['max'] - sim['min']) / 1e6)
    harness_bad = bool(errors or agg['harness_errors'] or agg['stopped_early'] or agg['missing'])
    evid = dict(
        property_id=prop, tier=tier, seed=base_seed, level='exploration',
        coverage=dict(
            evaluations=int(stats.get('ops', 0)),
            distinct_nontrivial=len(agg['plan_digests']),
            rule=profile.rule,
            samples=[s for s in agg['samples'][:3]],
            runs=agg['runs'], runs_requested=nruns,
            runs_per_hour=int(agg['runs'] / wall * 3600) if wall > 0 else 0,
            seeds=dict(base=base_seed, first_run_seed=core.run_seed_of(base_seed, prop, tier, 0),
                       last_run_seed=core.run_seed_of(base_seed, prop, tier, nruns - 1)),
            ops_by_kind=ops_by_kind, counters=other, faults_fired=faults, disk_calls=diskcalls, probes=probes,
            sim_time=sim_time, distinct_states=len(agg['states']), state_measure=profile.state_measure,
            hash_seeds=sorted(agg['hash_seeds']), workers=workers,
            components=profile.components,
            known_findings_hit=dict(agg['known_hits']),
            cross_process_groups_compared=cross,
            determinism_sample=det,
            harness_errors=len(errors) + len(agg['harness_errors']),
        ),
        assumptions=profile.assumptions,
        wall_s=round(wall, 3), violations=len(agg['violations']),
    )
    evdir = os.environ.get('VERIF_EVIDENCE_DIR') or os.path.join(core.VERIF_DIR, 'evidence')
    os.makedirs(evdir, exist_ok=True)
    with open(os.path.join(evdir, prop + '.json'), 'w') as f:
        json.dump(evid, f, indent=1, sort_keys=True, default=core._json_default)

    out = sys.stdout
    if not quiet:
        out.write('%s %s: seed=%d runs=%d ops=%d distinct_nontrivial=%d states=%d wall=%.1fs (%d runs/h)\n' % (
            prop, tier, base_seed, agg['runs'], stats.get('ops', 0), len(agg['plan_digests']), len(agg['states']),
            wall, evid['coverage']['runs_per_hour']))
        if faults:
            out.write('  faults fired: %s\n' % json.dumps(faults, sort_keys=True))
        zero = sorted(k for k, v in probes.items() if not v)
        if zero:
            out.write('  WARNING probes at zero: %s\n' % ', '.join(zero))
        leaked = sorted(k[len('module_state_restored:'):] for k in stats if k.startswith('module_state_restored:'))
        if leaked:
            out.write('  NOTE library state outlived a run and was restored by the world (not a verdict): %s\n' % ', '.join(leaked[:8]))
        if stats.get('seam_bypass'):
            out.write('  WARNING clock seam bypassed in %d ops (oracles stay sound; steering lost)\n' % stats['seam_bypass'])
    for sig, n in sorted(agg['known_hits'].items()):
        e = known[(prop, sig)]
        out.write('KNOWN-FINDING: property=%s %s %s (hit %d times)\n' % (prop, sig, e['what'], n))
    confirmed = 0
    for v in agg['violations']:
        out.write('VIOLATION property=%s replay=%s\n' % (prop, v['replay']))
        out.write('  signature=%s oracle=%s ops=%d run_seed=%d\n' % (v['signature'], v['oracle'], v['ops'], v['run_seed']))
        if confirmed < 3 and v['oracle'] != 'cross-process':
            # the replay file is the report: confirm in a fresh interpreter that it fails the same way
            confirmed += 1
            try:
                p = subprocess.run([PY, os.path.join(core.VERIF_DIR, 'check'), 'replay', v['replay']], cwd=core.VERIF_DIR,
                                   capture_output=True, text=True, timeout=600)
                ok = p.returncode == 1 and 'reproduced' in p.stdout
            except Exception:
                ok = False
            out.write('  replay in a fresh interpreter: %s\n' % ('reproduced' if ok else 'DID NOT REPRODUCE (the run depended on state outside the plan; '
                                                                 'treat as a harness isolation gap AND a violation)'))
    for e in errors:
        out.write('HARNESS-ERROR %s\n' % e)
    for e in agg['harness_errors'][:5]:
        out.write('HARNESS-ERROR run_index=%s run_seed=%s\n%s\n' % (e['run_index'], e['run_seed'], e['error']))
    if agg['stopped_early'] or agg['missing']:
        out.write('HARNESS-ERROR wall cap reached before all runs were executed (%d missing)\n' % agg['missing'])
    out.flush()
    if agg['violations']:
        return 1
    if harness_bad:
        return 2
    return 0


def replay(path, quiet=False):
    """Re-execute a replay file in a fresh interpreter under the recorded hash seed."""
    with open(path) as f:
        doc = json.load(f)
    if doc.get('cross_process') and os.environ.get('VERIF_REPLAY_CHILD') != '1':
        outs = []
        for hsd in doc.get('hash_seeds', [])[:4]:
            env = _env(hsd)
            env['VERIF_REPLAY_CHILD'] = '1'
            env['VERIF_REPLAY_GROUP'] = '1'
            p = subprocess.run([PY, os.path.join(core.VERIF_DIR, 'check'), 'replay', path], env=env, cwd=core.VERIF_DIR,
                               capture_output=True, text=True)
            outs.append(p.stdout.strip().splitlines()[-1] if p.stdout.strip() else 'no output')
        if len(set(outs)) > 1:
            print('VIOLATION property=%s replay=%s' % (doc['property'], path))
            print('  reproduced: oracle=cross-process signature=%s' % doc['violation']['signature'])
            for hsd, o in zip(doc.get('hash_seeds', []), outs):
                print('  PYTHONHASHSEED=%s -> %s' % (hsd, o))
            return 1
        print('replay did NOT reproduce a cross-process difference: %s' % outs[:1])
        return 0
    if os.environ.get('VERIF_REPLAY_GROUP') == '1':
        core.import_repo()
        profile = core.get_profile(doc['property'])
        res = core.execute(profile, doc['plan'])
        print('group-digest %s verdict=%s' % (res.group_digest, res.verdict))
        return 0
    if os.environ.get('VERIF_REPLAY_CHILD') != '1':
        env = _env(doc.get('hash_seed') or 0)
        env['VERIF_REPLAY_CHILD'] = '1'
        return subprocess.call([PY, os.path.join(core.VERIF_DIR, 'check'), 'replay', path], env=env, cwd=core.VERIF_DIR)
    core.import_repo()
    profile = core.get_profile(doc['property'])
    res = core.execute(profile, doc['plan'], keep_lines=True)
    want = doc.get('violation')
    if res.verdict == 'harness_error':
        print('HARNESS-ERROR during replay:\n%s' % res.error)
        return 2
    if want is None:
        print('replay: verdict=%s digest=%s (recorded digest %s)' % (res.verdict, res.digest, doc.get('digest')))
        return 0 if res.verdict == 'ok' else 1
    if core.same_failure(res, want):
        same_digest = res.digest == doc.get('digest')
        print('VIOLATION property=%s replay=%s' % (doc['property'], path))
        print('  reproduced: oracle=%s signature=%s op_index=%s digest_match=%s' % (
            res.violation['oracle'], res.violation['signature'], res.violation['op_index'], same_digest))
        print('  detail: %s' % json.dumps(res.violation.get('detail'), default=core._json_default)[:2000])
        if not quiet:
            for ln in res.lines[-6:]:
                print('  log: %s' % ln[:400])
        return 1
    print('replay did NOT reproduce: got verdict=%s %s, recorded %s' % (
        res.verdict, res.violation and res.violation['signature'], want['signature']))
    return 0 if res.verdict == 'ok' else 2


def determinism_sample(prop, tier, base_seed, n):
    """n run seeds: twice in one interpreter, under another job split, under other hash seeds; digests must agree."""
    ja = make_jobs(prop, tier, base_seed, n, 4, want_digests=True)
    for j in ja:
        j['twice'] = True
    a, ea = run_jobs(ja, 4, 900)
    ea = ea + [e['error'] for e in aggregate(a)['harness_errors'] if 'different digest' in e['error']]
    jc = make_jobs(prop, tier, base_seed, n, 8, want_digests=True)
    hs = core.hash_seeds_of(base_seed)
    for j in jc:
        j['hash_seed'] = hs[(hs.index(j['hash_seed']) + 1) % 4]
    c, ec = run_jobs(jc, 8, 900)
    da, dc = aggregate(a)['digests'], aggregate(c)['digests']
    diffs = sorted(k for k in da if da[k] != dc.get(k))
    return dict(seeds=n, diffs=len(diffs), errors=len(ea) + len(ec), first=diffs[:5])


def selftest_determinism(props, nseeds=200, base_seed=0):
    """Same run seeds: twice in one interpreter (worker A runs all, worker B runs all with other job split),
    W=3 vs W=16 job splits, and another PYTHONHASHSEED: digests must agree."""
    bad = 0
    report = {}
    for prop in props:
        profile = core.get_profile(prop)
        n = min(nseeds, profile.tiers['quick'])
        ja = make_jobs(prop, 'quick', base_seed, n, 3, want_digests=True)
        for j in ja:
            j['twice'] = True
        a, ea = run_jobs(ja, 3, 600)
        ea = ea + [e['error'] for e in aggregate(a)['harness_errors']]
        b, eb = run_jobs(make_jobs(prop, 'quick', base_seed, n, 16, want_digests=True), 16, 600)
        # other hash seeds: shift the class->seed table by one
        jobs_c = make_jobs(prop, 'quick', base_seed, n, 16, want_digests=True)
        hs = core.hash_seeds_of(base_seed)
        for j in jobs_c:
            j['hash_seed'] = hs[(hs.index(j['hash_seed']) + 1) % 4]
        c, ec = run_jobs(jobs_c, 16, 600)
        da, db, dc = aggregate(a)['digests'], aggregate(b)['digests'], aggregate(c)['digests']
        diff_ab = sorted(k for k in da if da[k] != db.get(k))
        diff_ac = sorted(k for k in da if da[k] != dc.get(k))
        report[prop] = dict(seeds=n, w3_vs_w16_diff=len(diff_ab), other_hashseed_diff=len(diff_ac),
                            errors=len(ea) + len(eb) + len(ec))
        print('%s determinism: %d seeds, W3-vs-W16 diffs=%d, other-hashseed diffs=%d, errors=%d' % (
            prop, n, len(diff_ab), len(diff_ac), len(ea) + len(eb) + len(ec)))
        if diff_ab or diff_ac:
            print('  first differing run indices:', (diff_ab or diff_ac)[:10])
        for e in (ea + eb + ec)[:3]:
            print('  ', e[:1500])
        if diff_ab or diff_ac or ea or eb or ec:
            bad += 1
    os.makedirs(os.path.join(core.VERIF_DIR, 'evidence'), exist_ok=True)
    path = os.path.join(core.VERIF_DIR, 'evidence', 'selftest-determinism.json')
    try:
        with open(path) as f:
            merged = json.load(f)
    except Exception:
        merged = {}
    merged.update(report)       # a run over some profiles refreshes those and keeps the others
    with open(path, 'w') as f:
        json.dump(merged, f, indent=1, sort_keys=True)
    return 2 if bad else 0
