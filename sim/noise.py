"""Background activity of the process ("noise"): library calls on PRIVATE objects that have nothing to do with the
workload of a run, executed between its operations at plan-chosen points.

A property that must hold "for every history" must hold whatever else the process did with the library before: other
objects versioned, marked, copied, stored, filtered, serialised, parsed, compared.  None of these calls touches the
run's own objects, stores or registrations, and their outcomes are not judged (other properties own them) - only what
they leave behind in the library (caches, class-level tables, module state) can matter, and that is exactly what the
run's own oracles then meet.  The activity is part of the plan (`op['noise'] = k`), so it replays and minimises with it.
"""
import copy
import json

from . import catalog as C
from .core import call

TS = '2016-05-12T08:17:27.000Z'


def _identity(n, ver='2.1'):
    d = {'type': 'identity', 'id': C.mkid('identity', 700000 + n, 'noise'), 'created': TS, 'modified': TS, 'name': 'noise',
         'identity_class': 'individual'}
    if ver == '2.1':
        d['spec_version'] = '2.1'
    return d


def _indicator(n):
    return {'type': 'indicator', 'spec_version': '2.1', 'id': C.mkid('indicator', 700000 + n, 'noise'), 'created': TS, 'modified': TS,
            'pattern': "[file:name = 'noise.exe']", 'pattern_type': 'stix', 'valid_from': TS, 'name': 'n', 'description': 'd',
            'labels': ['a', 'b'], 'granular_markings': [{'marking_ref': C.TLP['green'], 'selectors': ['name', 'labels.[1]']},
                                                        {'lang': 'fr', 'selectors': ['description']}]}


def a_version_sco(s, n):
    """new_version / revoke of a versionable 2.1 observable (custom created/modified/revoked), object and dict."""
    types = [('file', {'name': 'noise.bin'}), ('user-account', {'user_id': 'u%d' % n, 'account_login': 'l'}), ('software', {'name': 'sw'}),
             ('domain-name', {'value': 'noise%d.example' % n}), ('mutex', {'name': 'm'}), ('directory', {'path': '/n'})]
    t, props = types[n % len(types)]
    cls = s.registry.class_for_type(t, '2.1', 'observables')
    o = call(lambda: cls(allow_custom=True, created=TS, modified=TS, revoked=False, **props))
    if o.ok:
        call(s.versioning.new_version, o.value, x_note='n')
        call(s.versioning.new_version, json.loads(o.value.serialize()), x_note='n')
        call(s.versioning.revoke, o.value)


def a_version_sdo(s, n):
    o = call(s.parse, _identity(n, '2.1' if n % 2 else '2.0'))
    if o.ok:
        v = call(s.versioning.new_version, o.value, name='noise2')
        if v.ok:
            call(s.versioning.revoke, v.value)
    call(s.versioning.new_version, _identity(n + 1), name='noise3')


def a_markings(s, n):
    o = call(s.parse, _indicator(n))
    if o.ok:
        x = o.value
        call(s.markings.clear_markings, x, ['name'])
        call(s.markings.set_markings, x, C.TLP['red'], ['description'])
        call(s.markings.add_markings, x, C.TLP['amber'], ['labels'])
        call(s.markings.remove_markings, x, C.TLP['green'], ['name'])
        call(s.markings.get_markings, x, ['labels.[1]'], True, True)
        call(s.markings.is_marked, x, C.TLP['green'], ['labels.[1]'])
        call(s.markings.add_markings, x, C.TLP['red'])
    d = _indicator(n + 1)
    call(s.markings.add_markings, d, 'de', ['name'])
    call(s.markings.clear_markings, d, ['description'])


def a_parse_unknown(s, n):
    for extra in ({'spec_version': '2.1'}, {}):
        d = dict({'type': 'x-noise-unregistered-%d' % (n % 3), 'id': 'x-noise-unregistered-%d--%s' % (n % 3, C.mkuuid(n, 'noise')),
                  'created': TS, 'modified': TS, 'name': 'n'}, **extra)
        call(s.parse, d, allow_custom=True)
        call(s.parse, d, allow_custom=False)


def a_uuid_kinds(s, n):
    """Ids of every UUID kind through both versions' validators."""
    base = C.mkuuid(n, 'noise-uuid')
    for kind in '145':
        u = base[:14] + kind + base[15:]
        for ver in ('2.1', '2.0'):
            d = _identity(n, ver)
            d['id'] = 'identity--' + u
            call(s.parse, d, version=ver)


def a_memory_store(s, n):
    st = s.MemoryStore()
    call(st.add, [_identity(n), _identity(n + 1, '2.0'), _indicator(n)])
    f = s.Filter('type', '=', 'identity')
    call(st.source.filters.add, f)
    call(st.query, [s.Filter('name', '=', 'noise')])
    call(st.source.filters.remove, f)
    call(st.source.filters.add, f)
    call(st.get, _identity(n)['id'])
    call(st.all_versions, _identity(n)['id'])


def a_composite_env(s, n):
    a, b = s.MemorySource(stix_data=[_identity(n)]), s.MemorySource(stix_data=[_indicator(n)])
    cds = s.CompositeDataSource()
    call(cds.add_data_sources, [a, b])
    env = call(s.Environment, factory=s.ObjectFactory(created_by_ref=C.IDENT), source=cds)
    if env.ok:
        call(env.value.add_filter, s.Filter('type', '=', 'indicator'))
        call(env.value.query, [])
        call(env.value.creator_of, _identity(n))
    call(cds.query, [s.Filter('type', 'in', ['identity', 'indicator'])])
    call(cds.related_to, _identity(n)['id'])


def a_bundle_serialize(s, n):
    b = call(lambda: s.v21.Bundle(objects=[_identity(n), _indicator(n)]))
    if b.ok:
        call(b.value.serialize, pretty=True)
        call(b.value.serialize, sort_keys=True, indent=2)
        call(s.parse, b.value.serialize())
    b20 = call(lambda: s.v20.Bundle(objects=[_identity(n, '2.0')]))
    if b20.ok:
        call(s.parse, b20.value.serialize())


def a_deepcopy_compare(s, n):
    o = call(s.parse, _indicator(n))
    if o.ok:
        c = call(copy.deepcopy, o.value)
        if c.ok:
            call(lambda: (c.value == o.value, str(c.value), repr(o.value), hash(str(o.value))))


def a_observables(s, n):
    """Deterministic ids with hashes, extensions and floats; also through parse_observable (2.0 and 2.1)."""
    call(lambda: s.v21.File(name='n', hashes={'SHA-256': 'e3b0c44298fc1c149afbf4c8996fb92427ae41e4649b934ca495991b7852b855', 'MD5': 'd41d8cd98f00b204e9800998ecf8427e'},
                            extensions={'windows-pebinary-ext': {'pe_type': 'exe', 'sections': [{'name': '.t', 'entropy': 7.25 + n % 3}]}}))
    call(lambda: s.v21.NetworkTraffic(protocols=['tcp'], src_ref=C.REF_IPV4, src_port=n % 65536, start=TS))
    call(s.parse_observable, {'type': 'file', 'name': 'x', 'hashes': {'MD5': 'd41d8cd98f00b204e9800998ecf8427e'}}, version='2.0')
    call(s.parse_observable, {'type': 'ipv4-addr', 'spec_version': '2.1', 'value': '10.9.%d.1' % (n % 250)}, version='2.1')
    call(lambda: s.v21.Artifact(mime_type='text/plain', payload_bin='aGVsbG8='))


def a_timestamps(s, n):
    import datetime as dt
    import pytz
    u = s.utils
    for txt in ('2017-01-01T00:00:00Z', '2017-01-01T00:00:00.000Z', '2017-01-01T00:00:00.123456Z', '2017-01-01T00:00:00.5Z'):
        for prec, cons in (('millisecond', 'exact'), ('millisecond', 'min'), ('second', 'exact'), (None, None)):
            kw = {} if prec is None else {'precision': prec, 'precision_constraint': cons}
            p = call(u.parse_into_datetime, txt, **kw)
            if p.ok:
                call(u.format_datetime, p.value)
    call(u.format_datetime, dt.datetime(2020, 2, 29, 23, 59, 59, 999999 - n % 7, tzinfo=pytz.utc))
    call(u.format_datetime, dt.datetime(2020, 1, 1, 1, 0, 0, tzinfo=pytz.timezone('Europe/Paris')))


def a_patterns(s, n):
    from stix2.equivalence.pattern import equivalent_patterns
    call(equivalent_patterns, "[a:b = 1 OR a:b = %d]" % (n % 5), "[a:b = %d OR a:b = 1]" % (n % 5))
    call(lambda: s.v21.Indicator(pattern="[ipv4-addr:value ISSUBSET '10.0.0.0/%d']" % (8 + n % 16), pattern_type='stix', valid_from=TS))


def a_invalid_inputs(s, n):
    """Calls that fail: exception paths leave things behind too."""
    call(s.parse, {'type': 'identity', 'spec_version': '2.1', 'id': 'identity--not-a-uuid', 'name': 'x'})
    call(s.parse, {'type': 'indicator', 'spec_version': '2.1', 'pattern': '[', 'pattern_type': 'stix', 'valid_from': TS})
    call(s.parse, dict(_identity(n), x_custom=1))
    call(s.parse, dict(_identity(n), extensions={'extension-definition--' + C.mkuuid(n, 'noise-ext'): {'extension_type': 'toplevel-property-extension'}, }, rank=1))
    call(s.versioning.new_version, _identity(n), id='identity--' + C.mkuuid(n + 1, 'noise'))
    call(s.parse_observable, {'type': 'file', 'spec_version': '2.1'}, version='2.1')
    # refused half-way through the computation of a deterministic id
    call(lambda: s.v21.AutonomousSystem(number=10 ** 400))
    call(lambda: s.v21.File(name='f', extensions={'extension-definition--' + C.mkuuid(n, 'noise-bad'): {'extension_type': 'property-extension', 'a': 'b', 'n': float('nan')}}))


def a_object_factory(s, n):
    f = call(s.ObjectFactory, created_by_ref=C.IDENT, created=TS, external_references=[{'source_name': 'n', 'external_id': 'e'}],
             object_marking_refs=[C.TLP['green']], list_append=bool(n % 2))
    if f.ok:
        call(f.value.create, s.v21.Identity, name='f', identity_class='individual')
        call(f.value.create, s.v20.Identity, name='f', identity_class='individual', external_references=[{'source_name': 'm', 'external_id': 'x'}])


def a_refused_registrations(s, n):
    """Registrations that have to be refused (a name taken in the other category, a type name breaking the naming rules while an
    extension is to be registered along with it): a refusal must leave nothing behind for the calls that follow."""
    from stix2.properties import StringProperty
    props = [('value', StringProperty())]
    ext = 'extension-definition--' + C.mkuuid(n % 3, 'noise-refused')
    objs21 = sorted(s.registry.STIX2_OBJ_MAPS['2.1']['objects'])
    obss21 = sorted(s.registry.STIX2_OBJ_MAPS['2.1']['observables'])
    customs = [t for t in objs21 if t.startswith('x-')]
    k = n % 6
    if k == 0:
        call(lambda: s.v21.CustomObservable(objs21[n // 6 % len(objs21)], props)(type('NoiseObs', (object,), {})))
    elif k == 1:
        call(lambda: s.v21.CustomObject(obss21[n // 6 % len(obss21)], props)(type('NoiseObj', (object,), {})))
    elif k == 2 and customs:
        call(lambda: s.v21.CustomObservable(customs[n // 6 % len(customs)], props)(type('NoiseObs', (object,), {})))
    elif k == 3:
        call(lambda: s.v21.CustomObject(['X-Noise', '9x', 'x_noise_thing', 'xn'][n // 6 % 4], props, extension_name=ext)(type('NoiseObj', (object,), {})))
    elif k == 4:
        call(lambda: s.v21.CustomObservable(['X-Noise', 'x_noise_thing', 'xn'][n // 6 % 3], props, extension_name=ext)(type('NoiseObs', (object,), {})))
    else:
        objs20 = sorted(s.registry.STIX2_OBJ_MAPS['2.0']['objects'])
        call(lambda: s.v20.CustomObservable(objs20[n // 6 % len(objs20)], props)(type('NoiseObs', (object,), {})))


ACTIVITIES = [a_version_sco, a_version_sdo, a_markings, a_parse_unknown, a_uuid_kinds, a_memory_store, a_composite_env, a_bundle_serialize,
              a_deepcopy_compare, a_observables, a_timestamps, a_patterns, a_invalid_inputs, a_object_factory, a_refused_registrations]


def run(world, k):
    import stix2
    act = ACTIVITIES[k % len(ACTIVITIES)]
    call(act, stix2, k // len(ACTIVITIES))
    world.stats['noise:' + act.__name__] += 1
    return act.__name__
