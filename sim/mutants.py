"""Sensitivity / specificity self-test: textual mutants of a scratch copy of /repo/stix2.

./check selftest-mutants [-k substring] [--list]
Each mutant is applied to a copy under /dev/shm, the owning property's quick tier is run with
VERIF_REPO pointing at the copy, exit 1 + a reproducing replay is expected (kind=break) or exit 0
(kind=equiv, semantics-preserving edit).  Results go to evidence/selftest-mutants.json.
"""
import json
import os
import re
import shutil
import subprocess
import sys
import tempfile
import time

from . import core
from .mutant_list import MUTANTS


def _scratch():
    base = '/dev/shm' if os.path.isdir('/dev/shm') else tempfile.gettempdir()
    return tempfile.mkdtemp(prefix='stix2mut-', dir=base)


def run_one(m, runs=None, verbose=False):
    d = _scratch()
    try:
        shutil.copytree(os.path.join('/repo', 'stix2'), os.path.join(d, 'stix2'),
                        ignore=shutil.ignore_patterns('__pycache__', 'test'))
        path = os.path.join(d, 'stix2', m['file'])
        src = open(path).read()
        if m.get('regex'):
            new, n = re.subn(m['old'], m['new'], src, count=1, flags=re.S)
        else:
            n = src.count(m['old'])
            new = src.replace(m['old'], m['new'], 1)
        if n < 1:
            return dict(id=m['id'], status='not-applied')
        open(path, 'w').write(new)
        env = dict(os.environ, VERIF_REPO=d, VERIF_REPLAY_DIR=os.path.join(d, 'replays'),
                   VERIF_EVIDENCE_DIR=os.path.join(d, 'evidence'), PYTHONDONTWRITEBYTECODE='1')
        if runs:
            env['VERIF_RUNS'] = str(runs)
        out = {}
        for prop in m['props']:
            t0 = time.time()
            p = subprocess.run([os.path.join(core.VERIF_DIR, 'check'), prop, 'quick'], env=env, capture_output=True,
                               text=True, cwd=core.VERIF_DIR)
            sigs = sorted(set(re.findall(r'signature=(\S+)', p.stdout)))
            reps = re.findall(r'VIOLATION property=\S+ replay=(\S+)', p.stdout)
            rep_ok = None
            if reps:
                rp = subprocess.run([os.path.join(core.VERIF_DIR, 'check'), 'replay', reps[0]], env=env,
                                    capture_output=True, text=True, cwd=core.VERIF_DIR)
                rep_ok = rp.returncode == 1 and 'reproduced' in rp.stdout
            out[prop] = dict(rc=p.returncode, signatures=sigs, replay_reproduced=rep_ok, wall_s=round(time.time() - t0, 1))
            if verbose or p.returncode == 2:
                sys.stdout.write(p.stdout[-1500:] + p.stderr[-1500:])
        want = 1 if m.get('kind', 'break') == 'break' else 0
        if want == 1:
            ok = any(r['rc'] == 1 and r['replay_reproduced'] for r in out.values())
        else:
            ok = all(r['rc'] == 0 for r in out.values())
        return dict(id=m['id'], kind=m.get('kind', 'break'), status='as-expected' if ok else 'UNEXPECTED', results=out)
    finally:
        shutil.rmtree(d, ignore_errors=True)


def main(argv):
    sel = None
    runs = None
    verbose = '-v' in argv
    if '-k' in argv:
        sel = argv[argv.index('-k') + 1]
    if '--runs' in argv:
        runs = int(argv[argv.index('--runs') + 1])
    ms = [m for m in MUTANTS if not sel or sel in m['id'] or sel in m['props']]
    if '--list' in argv:
        for m in ms:
            print(m['id'], m['props'], m.get('kind', 'break'))
        return 0
    results = []
    for m in ms:
        r = run_one(m, runs, verbose)
        results.append(r)
        print(json.dumps(r))
        sys.stdout.flush()
    if not sel:
        with open(os.path.join(core.VERIF_DIR, 'evidence', 'selftest-mutants.json'), 'w') as f:
            json.dump(dict(mutants=results), f, indent=1, sort_keys=True)
    bad = [r for r in results if r['status'] != 'as-expected']
    print('%d mutants, %d unexpected' % (len(results), len(bad)))
    return 0 if not bad else 3
