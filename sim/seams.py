"""Seams the simulator owns: wall clock, uuid4, the disk, process-wide registries.

All seams are installed from outside; nothing in /repo is edited.  Every seam
is installed by World.__enter__ and removed by World.__exit__ (core.py).
"""
import builtins
import collections
import datetime as _dt
import errno
import io
import os
import random
import shutil
import tempfile
import uuid
import zlib

_EPOCH = None  # set lazily (needs pytz from the venv)


def _epoch():
    global _EPOCH
    if _EPOCH is None:
        import pytz
        _EPOCH = _dt.datetime(1970, 1, 1, tzinfo=pytz.UTC)
    return _EPOCH


# --------------------------------------------------------------------------
# clock
# --------------------------------------------------------------------------

class SimClock(object):
    """Simulated wall clock in integer microseconds since the epoch.

    mode 'fixed'    : every read returns `now`
    mode 'tick'     : every read returns `now`, then now += step
    mode 'per_read' : the k-th read after set() returns now + offsets[k % n]
    granularity g   : the value handed out is floored to a multiple of g us
    """

    def __init__(self):
        self.now = 1500000000 * 1000000
        self.mode = 'fixed'
        self.step = 0
        self.offsets = [0]
        self.gran = 1
        self.reads = 0
        self._k = 0
        self.min_read = None
        self.max_read = None
        self.installed = False

    def set(self, now_us, mode=None, step=None, offsets=None, gran=None):
        self.now = int(now_us)
        if mode is not None:
            self.mode = mode
        if step is not None:
            self.step = int(step)
        if offsets is not None:
            self.offsets = list(offsets) or [0]
        if gran is not None:
            self.gran = max(1, int(gran))
        self._k = 0

    def read(self):
        self.reads += 1
        if self.mode == 'tick':
            v = self.now
            self.now += self.step
        elif self.mode == 'per_read':
            v = self.now + self.offsets[self._k % len(self.offsets)]
            self._k += 1
        else:
            v = self.now
        v -= v % self.gran
        if v < 0:
            v = 0
        if self.min_read is None or v < self.min_read:
            self.min_read = v
        if self.max_read is None or v > self.max_read:
            self.max_read = v
        return v

    # -- installation ------------------------------------------------------
    def install(self):
        import stix2.utils
        clock = self
        cls = stix2.utils.STIXdatetime

        def now(klass, tz=None):
            d = _epoch() + _dt.timedelta(microseconds=clock.read())
            if tz is None:
                d = d.replace(tzinfo=None)
            elif tz is not d.tzinfo:
                d = d.astimezone(tz)
            return klass(d)

        self._had_now = 'now' in cls.__dict__
        self._old_now = cls.__dict__.get('now')
        cls.now = classmethod(now)
        self._cls = cls
        self.installed = True

    def uninstall(self):
        if not self.installed:
            return
        if self._had_now:
            self._cls.now = self._old_now
        else:
            try:
                del self._cls.now
            except AttributeError:
                pass
        self.installed = False


# --------------------------------------------------------------------------
# uuid4
# --------------------------------------------------------------------------

class SimUUID(object):
    """Seeded replacement for uuid.uuid4; every value handed out is logged."""

    def __init__(self, seed):
        self.rng = random.Random(seed)
        self.handed_out = []
        self.installed = False

    def next(self):
        u = uuid.UUID(int=self.rng.getrandbits(128), version=4)
        self.handed_out.append(str(u))
        return u

    def install(self):
        self._old = uuid.uuid4
        uuid.uuid4 = self.next
        self.installed = True

    def uninstall(self):
        if self.installed:
            uuid.uuid4 = self._old
            self.installed = False


# --------------------------------------------------------------------------
# registries
# --------------------------------------------------------------------------

class Registries(object):
    """Snapshot / compare / restore of stix2.registry.STIX2_OBJ_MAPS."""

    def __init__(self):
        import stix2.registry
        self.maps = stix2.registry.STIX2_OBJ_MAPS
        self.snap = self.take()

    def take(self):
        return {
            ver: {cat: dict(m) for cat, m in cats.items()}
            for ver, cats in self.maps.items()
        }

    def shape(self):
        """Observable class-level state of every registered class (a registration can also be damaged without
        the map changing: e.g. a failed construction editing a registered extension's property table)."""
        out = {}
        for ver, cats in self.maps.items():
            for cat, m in cats.items():
                for name, cls in m.items():
                    props = getattr(cls, '_properties', None)
                    tl = getattr(cls, '_toplevel_properties', None)
                    out[(ver, cat, name)] = (
                        tuple(props) if props is not None else None,
                        tuple(tl) if tl is not None else None,
                        tuple(getattr(cls, '_id_contributing_properties', ()) or ()),
                        getattr(cls, '_type', None),
                    )
        return out

    @staticmethod
    def shape_diff(before, after):
        return sorted('%s/%s/%s' % k for k in before if k in after and before[k] != after[k])

    def diff(self, other=None):
        """List of (ver, cat, name, kind) differences between the snapshot and
        the current state (or `other`)."""
        cur = other if other is not None else self.take()
        return self.diff_maps(self.snap, cur)

    @staticmethod
    def diff_maps(snap, cur):
        out = []
        for ver in sorted(set(snap) | set(cur)):
            a, b = snap.get(ver, {}), cur.get(ver, {})
            for cat in sorted(set(a) | set(b)):
                ma, mb = a.get(cat, {}), b.get(cat, {})
                for name in sorted(set(ma) | set(mb)):
                    if name not in mb:
                        out.append((ver, cat, name, 'missing'))
                    elif name not in ma:
                        out.append((ver, cat, name, 'added'))
                    elif ma[name] is not mb[name]:
                        out.append((ver, cat, name, 'replaced'))
        return out

    def restore(self):
        for ver, cats in self.snap.items():
            for cat, m in cats.items():
                live = self.maps[ver][cat]
                live.clear()
                live.update(m)


class ModuleState(object):
    """Process-wide mutable module-level containers of the library (dicts / sets / short lists that are module globals):
    snapshot at world creation, restored in place at teardown, so that one run never sees state another run left behind
    (a run is one process, conceptually).  What had to be restored is reported: it is library state that outlives a call."""

    _candidates = None

    @classmethod
    def candidates(cls):
        if cls._candidates is None:
            import sys
            import types
            out = []
            seen = set()
            for name, mod in sorted(sys.modules.items()):
                if not (name == 'stix2' or name.startswith('stix2.')) or mod is None or '.test' in name:
                    continue
                for attr, obj in sorted(vars(mod).items()):
                    if attr.startswith('__') or id(obj) in seen:
                        continue
                    if isinstance(obj, (dict, set)) or (isinstance(obj, list) and len(obj) < 2000):
                        if isinstance(obj, types.ModuleType):
                            continue
                        seen.add(id(obj))
                        out.append((name, attr, obj))
            cls._candidates = out
        return cls._candidates

    _owners = None

    @classmethod
    def owners(cls):
        """Functions and classes defined by the library's modules (state can hide in function attributes and in
        class-level containers as well as in module globals)."""
        if cls._owners is None:
            import sys
            import types
            funcs, classes = [], []
            seen = set()
            for name, mod in sorted(sys.modules.items()):
                if not (name == 'stix2' or name.startswith('stix2.')) or mod is None or '.test' in name:
                    continue
                for attr, obj in sorted(vars(mod).items()):
                    if id(obj) in seen or getattr(obj, '__module__', None) != name:
                        continue
                    if isinstance(obj, types.FunctionType):
                        seen.add(id(obj))
                        funcs.append(('%s.%s' % (name, attr), obj))
                    elif isinstance(obj, type):
                        seen.add(id(obj))
                        classes.append(('%s.%s' % (name, attr), obj))
                        for a2, o2 in sorted(vars(obj).items()):
                            f = getattr(o2, '__func__', o2)
                            if isinstance(f, types.FunctionType) and id(f) not in seen:
                                seen.add(id(f))
                                funcs.append(('%s.%s.%s' % (name, attr, a2), f))
            cls._owners = (funcs, classes)
        return cls._owners

    _instances = None

    @classmethod
    def instances(cls):
        """Library objects that hang off the classes for the life of the process - the property objects in every class's
        `_properties` and what they contain (contained properties, embedded types' properties ...): state kept in an
        attribute of such an object (a look-up table that learns, a memo) outlives a call just like a module global."""
        if cls._instances is None:
            out, seen = [], set()

            def walk(qn, o, depth):
                if id(o) in seen or depth > 4:
                    return
                mod = getattr(type(o), '__module__', '') or ''
                if isinstance(o, type) or not (mod == 'stix2' or mod.startswith('stix2.')) or not hasattr(o, '__dict__'):
                    return
                seen.add(id(o))
                out.append((qn, o))
                for a, v in sorted(vars(o).items()):
                    if isinstance(v, (list, tuple)):
                        for i, x in enumerate(v[:50]):
                            walk('%s.%s[%d]' % (qn, a, i), x, depth + 1)
                    elif isinstance(v, dict):
                        for k2 in list(v)[:50]:
                            walk('%s.%s[%r]' % (qn, a, k2), v[k2], depth + 1)
                    else:
                        walk('%s.%s' % (qn, a), v, depth + 1)
            for qn, c in cls.owners()[1]:
                props = vars(c).get('_properties')
                if isinstance(props, dict):
                    for k, pobj in list(props.items()):
                        walk('%s._properties[%s]' % (qn, k), pobj, 0)
            cls._instances = out
        return cls._instances

    @staticmethod
    def _snap(o):
        return dict(o) if isinstance(o, dict) else set(o) if isinstance(o, set) else list(o)

    @staticmethod
    def _class_containers(c):
        return {a: o for a, o in vars(c).items() if not a.startswith('__') and isinstance(o, (dict, set, list))}

    def __init__(self):
        self.saved = [(m, a, o, self._snap(o)) for m, a, o in self.candidates()]
        funcs, classes = self.owners()
        self.fsaved = {id(f): dict(f.__dict__) for _, f in funcs if f.__dict__}
        self.isaved = []
        for qn, o in self.instances():
            for a, v in vars(o).items():
                if isinstance(v, (dict, set, list)):
                    self.isaved.append((qn, o, a, v, self._snap(v)))
        self.csaved = {}
        for _, c in classes:
            cc = self._class_containers(c)
            if cc:
                self.csaved[id(c)] = {a: (o, self._snap(o)) for a, o in cc.items()}

    def restore(self):
        changed = []
        for m, a, o, snap in self.saved:
            try:
                same = (o == snap)
            except Exception:
                same = False
            if not same:
                changed.append('%s.%s' % (m, a))
                if isinstance(o, dict):
                    o.clear()
                    o.update(snap)
                elif isinstance(o, set):
                    o.clear()
                    o.update(snap)
                else:
                    o[:] = snap
        funcs, classes = self.owners()
        for qn, f in funcs:
            if f.__dict__ or id(f) in self.fsaved:
                was = self.fsaved.get(id(f), {})
                if f.__dict__ != was or any(f.__dict__[k] is not was[k] for k in was):
                    changed.append('function-attributes:' + qn)
                    f.__dict__.clear()
                    f.__dict__.update(was)
        for qn, c in classes:
            now = self._class_containers(c)
            was = self.csaved.get(id(c), {})
            for a in now:
                if a not in was:
                    changed.append('class-attribute-added:%s.%s' % (qn, a))
                    try:
                        delattr(c, a)
                    except Exception:
                        pass
            for a, (o, snap) in was.items():
                try:
                    same = (now.get(a) is o) and (o == snap) and (not isinstance(o, dict) or list(o) == list(snap))
                except Exception:
                    same = False
                if not same:
                    changed.append('class-attribute:%s.%s' % (qn, a))
                    if isinstance(o, (dict, set)):
                        o.clear()
                        o.update(snap)
                    else:
                        o[:] = snap
                    if now.get(a) is not o:
                        try:
                            setattr(c, a, o)
                        except Exception:
                            pass
        for qn, o, a, v, snap in self.isaved:
            try:
                same = (vars(o).get(a) is v) and (v == snap) and (not isinstance(v, dict) or list(v) == list(snap))
            except Exception:
                same = False
            if not same:
                changed.append('instance-attribute:%s.%s' % (qn, a))
                if isinstance(v, (dict, set)):
                    v.clear()
                    v.update(snap)
                else:
                    v[:] = snap
                try:
                    setattr(o, a, v)
                except Exception:
                    pass
        return changed


# --------------------------------------------------------------------------
# disk
# --------------------------------------------------------------------------

class SimCrash(BaseException):
    """Process crash injected at a write boundary (not an Exception on purpose:
    `except Exception` in the code under test must not be able to swallow it)."""


class InjectedOSError(OSError):
    """Marker subclass so the harness can tell its own faults from real ones."""


def _crc(s):
    return zlib.crc32(s.encode('utf-8', 'surrogatepass')) & 0xffffffff


class _SimRaw(io.RawIOBase):
    """Raw writer on a real file which applies the armed write fault."""

    def __init__(self, disk, path, fd):
        super(_SimRaw, self).__init__()
        self._disk = disk
        self._path = path
        self._fd = fd
        self._failed = None
        self._chunk = 0
        self.nbytes = 0

    def writable(self):
        return True

    def seekable(self):
        return True

    def tell(self):
        return os.lseek(self._fd, 0, os.SEEK_CUR)

    def seek(self, offset, whence=os.SEEK_SET):
        return os.lseek(self._fd, offset, whence)

    def fileno(self):
        return self._fd

    def write(self, b):
        if self._failed is not None:
            raise self._failed()
        b = bytes(b)
        n, exc = self._disk._write_fault(self._path, self._chunk, len(b))
        self._chunk += 1
        if n:
            done = 0
            while done < n:
                done += os.write(self._fd, b[done:n])
            self.nbytes += n
        if exc is not None:
            self._failed = exc
            self._disk._file_state(self._path, 'torn', self.nbytes)
            raise exc()
        return n

    def close(self):
        if not self.closed:
            try:
                os.close(self._fd)
            finally:
                super(_SimRaw, self).close()
                if self._failed is None:
                    self._disk._file_state(self._path, 'complete', self.nbytes)


class _SimReader(object):
    """Proxy around a real file opened for reading: the armed `read` fault fires inside read()."""

    def __init__(self, disk, path, fh):
        self._disk, self._path, self._fh = disk, path, fh

    def _maybe(self):
        f = self._disk._hit('read')
        if f:
            self._disk._raise(f, 'read', self._path)

    def read(self, *a):
        self._maybe()
        return self._fh.read(*a)

    def readline(self, *a):
        self._maybe()
        return self._fh.readline(*a)

    def __iter__(self):
        self._maybe()
        return iter(self._fh)

    def __enter__(self):
        return self

    def __exit__(self, *a):
        self._fh.close()
        return False

    def __getattr__(self, name):
        return getattr(self._fh, name)


class _ScandirList(object):
    def __init__(self, entries):
        self._it = iter(entries)

    def __iter__(self):
        return self

    def __next__(self):
        return next(self._it)

    def __enter__(self):
        return self

    def __exit__(self, *a):
        return False

    def close(self):
        pass


class SimDisk(object):
    """Interposer for file access under one directory (`root`, on tmpfs).

    Real tmpfs supplies the semantics; the wrapper supplies directory
    enumeration order, injected errors, byte-exact short / torn writes and the
    crash point, and keeps a ledger of which files were completely written.
    """

    _OS_NAMES = ('listdir', 'scandir', 'stat', 'lstat', 'mkdir', 'remove', 'unlink', 'rename', 'replace')

    def __init__(self):
        base = '/dev/shm' if os.path.isdir('/dev/shm') and os.access('/dev/shm', os.W_OK) else tempfile.gettempdir()
        self.root = os.path.realpath(tempfile.mkdtemp(prefix='stix2sim-', dir=base))
        self.ls_key = 0
        self.armed = None          # dict(kind, call, nth, frac, chunk)
        self.calls = collections.Counter()   # per-op call counters by call class
        self.fired = collections.Counter()   # per-run fired faults by 'KIND@call'
        self.fired_in_op = []
        self.files = {}            # relpath -> (state, nbytes)
        self.write_seq = []        # relpaths in the order they were opened for writing
        self.calls_total = collections.Counter()
        self.vanished = []
        self.installed = False
        self._orig = {}
        # file timestamps are a clock, and the disk owns it: every stat result under root carries simulated a/m/c-times.
        # mtime_gran = number of mutations (create, write, remove, rename) per tick of the filesystem's timestamp clock:
        # 1 = every change gets a new time stamp (fine-grained), N = coarse (several changes share one stamp), 0 = frozen
        self.mtime_gran = 1
        self.mutations = 0
        self.mtimes = {}

    # -- helpers -----------------------------------------------------------
    def under(self, path):
        if isinstance(path, int):
            return False
        try:
            p = os.fspath(path)
        except TypeError:
            return False
        if isinstance(p, bytes):
            try:
                p = p.decode('utf-8')
            except UnicodeDecodeError:
                return False
        if not p.startswith('/'):
            p = os.path.join(os.getcwd(), p)
        p = os.path.normpath(p)
        return p == self.root or p.startswith(self.root + '/')

    def rel(self, path):
        p = os.fspath(path)
        if isinstance(p, bytes):
            p = p.decode('utf-8')
        p = os.path.normpath(p if p.startswith('/') else os.path.join(os.getcwd(), p))
        return os.path.relpath(p, self.root)

    def _norm(self, path):
        p = os.fspath(path)
        if isinstance(p, bytes):
            p = p.decode('utf-8', 'surrogateescape')
        return os.path.normpath(p if p.startswith('/') else os.path.join(os.getcwd(), p))

    def touch(self, path, parent=True, itself=True):
        """A mutation of `path` happened: advance the disk's timestamp clock and stamp the path and/or its directory."""
        self.mutations += 1
        tick = self.mutations // self.mtime_gran if self.mtime_gran else 0
        p = self._norm(path)
        if itself:
            self.mtimes[p] = tick
        if parent:
            self.mtimes[os.path.dirname(p)] = tick

    def fake_times(self, path, st):
        """The real stat result with the disk's simulated time stamps."""
        tick = self.mtimes.get(self._norm(path), 0)
        ns = 1600000000 * 10 ** 9 + tick * 2 * 10 ** 9
        seq, extra = st.__reduce__()[1]
        seq = list(seq)
        seq[7] = seq[8] = seq[9] = ns // 10 ** 9
        extra = dict(extra)
        for k in ('st_atime', 'st_mtime', 'st_ctime'):
            extra[k] = ns / 1e9
            extra[k + '_ns'] = ns
        return os.stat_result(seq, extra)

    def begin_op(self, ls_key=0, fault=None):
        self.ls_key = ls_key
        self.armed = dict(fault) if fault else None
        self.calls = collections.Counter()
        self.fired_in_op = []

    def end_op(self):
        self.armed = None
        return list(self.fired_in_op)

    def _file_state(self, path, state, nbytes):
        self.files[self.rel(path)] = (state, nbytes)

    def _hit(self, call):
        """Count one call of class `call`; return the armed fault if it is due."""
        self.calls_total[call] += 1
        n = self.calls[call]
        self.calls[call] = n + 1
        f = self.armed
        if f and f['call'] == call and f.get('nth', 0) == n and f['kind'] != 'CRASH' and call != 'write':
            return f
        return None

    def _vanish_at_stat(self, path):
        """The entry was listed and is gone by the time it is stat()ed (deleted by someone else in between): the file, or
        the directory with everything in it, is really removed, and this stat fails with ENOENT.  The store root and the
        directories directly under it (type directories) stay: only entries are deleted."""
        rel = self.rel(path)
        o = self._orig
        try:
            real = o['lstat'](path)
        except OSError:
            real = None
        if rel.count('/') < 2 or real is None:
            return            # not an entry of a type directory (or already absent): this stat proceeds normally, the fault stays armed
        tag = 'VANISH@stat'
        self.fired[tag] += 1
        self.fired_in_op.append(tag)
        self.armed = None
        self.vanished.append(rel)
        for k in [k for k in self.files if k == rel or k.startswith(rel + '/')]:
            self.files.pop(k, None)
        import stat as _stat
        was_installed = self.installed
        try:
            if _stat.S_ISDIR(real.st_mode):
                # (rmtree goes through os.*: take the wrappers away for the moment so that nothing of this is counted or faulted)
                if was_installed:
                    self.uninstall()
                try:
                    shutil.rmtree(os.fspath(path), ignore_errors=True)
                finally:
                    if was_installed:
                        self.install()
            else:
                o['remove'](path)
        except OSError:
            pass
        self.touch(path, itself=False)
        raise FileNotFoundError(errno.ENOENT, os.strerror(errno.ENOENT) + ' [entry vanished, injected]', os.fspath(path))

    def _raise(self, f, call, path):
        tag = '%s@%s' % (f['kind'], call)
        self.fired[tag] += 1
        self.fired_in_op.append(tag)
        self.armed = None
        code = {'EIO': errno.EIO, 'ENOSPC': errno.ENOSPC, 'EACCES': errno.EACCES}[f['kind']]
        raise InjectedOSError(code, os.strerror(code) + ' [injected]', os.fspath(path))

    def _write_fault(self, path, chunk, nbytes):
        """Called by _SimRaw for every raw write: (bytes to really write, exception factory or None)."""
        f = self.armed
        if not f or f['call'] != 'write':
            return nbytes, None
        rel = self.rel(path)
        try:
            file_nth = self.write_seq.index(rel, self._op_write_base) - self._op_write_base
        except ValueError:
            return nbytes, None
        if file_nth != f.get('nth', 0) or chunk != f.get('chunk', 0):
            return nbytes, None
        cut = int(nbytes * f.get('frac', 0.5))
        cut = max(0, min(nbytes - 1, cut)) if nbytes else 0
        kind = f['kind']
        tag = '%s@write' % kind
        self.fired[tag] += 1
        self.fired_in_op.append(tag)
        self.armed = None
        if kind == 'CRASH':
            return cut, (lambda: SimCrash('crash after %d bytes of %s' % (cut, rel)))
        code = errno.ENOSPC if kind == 'ENOSPC' else errno.EIO
        p = os.fspath(path)
        return cut, (lambda: InjectedOSError(code, os.strerror(code) + ' [injected]', p))

    _op_write_base = 0

    def permute(self, path, names):
        names = sorted(names)
        if self.ls_key:
            random.Random((self.ls_key * 2654435761 ^ _crc(self.rel(path))) & 0xffffffffffff).shuffle(names)
        return names

    # -- wrappers ----------------------------------------------------------
    def install(self):
        o = self._orig
        for n in self._OS_NAMES:
            o[n] = getattr(os, n)
        o['open'] = builtins.open
        o['io_open'] = io.open
        disk = self

        def listdir(path='.'):
            if not disk.under(path):
                return o['listdir'](path)
            f = disk._hit('listdir')
            if f:
                disk._raise(f, 'listdir', path)
            return disk.permute(path, o['listdir'](path))

        def scandir(path='.'):
            if not disk.under(path):
                return o['scandir'](path)
            f = disk._hit('listdir')
            if f:
                disk._raise(f, 'listdir', path)
            with o['scandir'](path) as it:
                ents = {e.name: e for e in it}
            return _ScandirList([ents[n] for n in disk.permute(path, list(ents))])

        def stat(path, *a, **kw):
            if disk.under(path):
                f = disk._hit('stat')
                if f and f['kind'] == 'VANISH':
                    disk._vanish_at_stat(path)
                elif f:
                    disk._raise(f, 'stat', path)
                return disk.fake_times(path, o['stat'](path, *a, **kw))
            return o['stat'](path, *a, **kw)

        def lstat(path, *a, **kw):
            if disk.under(path):
                f = disk._hit('stat')
                if f:
                    disk._raise(f, 'stat', path)
                return disk.fake_times(path, o['lstat'](path, *a, **kw))
            return o['lstat'](path, *a, **kw)

        def mkdir(path, *a, **kw):
            if disk.under(path):
                f = disk._hit('mkdir')
                if f:
                    disk._raise(f, 'mkdir', path)
                r = o['mkdir'](path, *a, **kw)
                disk.touch(path)
                return r
            return o['mkdir'](path, *a, **kw)

        def remove(path, *a, **kw):
            if disk.under(path):
                disk._hit('remove')
                disk.files.pop(disk.rel(path), None)
                disk.touch(path, itself=False)
            return o['remove'](path, *a, **kw)

        def unlink(path, *a, **kw):
            if disk.under(path):
                disk._hit('remove')
                disk.files.pop(disk.rel(path), None)
                disk.touch(path, itself=False)
            return o['unlink'](path, *a, **kw)

        def _mv(name):
            def mv(src, dst, *a, **kw):
                r = o[name](src, dst, *a, **kw)
                if disk.under(src) and disk.under(dst):
                    disk._hit('rename')
                    disk.touch(src, itself=False)
                    disk.touch(dst)
                    st = disk.files.pop(disk.rel(src), None)
                    if st is not None:
                        disk.files[disk.rel(dst)] = st
                return r
            return mv

        def sim_open(file, mode='r', buffering=-1, encoding=None, errors=None, newline=None, closefd=True, opener=None):
            if not disk.under(file):
                return o['open'](file, mode, buffering, encoding, errors, newline, closefd, opener)
            writing = any(c in mode for c in 'wax+')
            if not writing:
                f = disk._hit('open_r')
                if f and f['kind'] == 'VANISH':
                    # the file really disappears between the directory listing and the open (concurrent deletion)
                    tag = 'VANISH@open_r'
                    disk.fired[tag] += 1
                    disk.fired_in_op.append(tag)
                    disk.armed = None
                    disk.vanished.append(disk.rel(file))
                    disk.files.pop(disk.rel(file), None)
                    try:
                        o['remove'](file)
                    except OSError:
                        pass
                elif f:
                    disk._raise(f, 'open_r', file)
                fh = o['open'](file, mode, buffering, encoding, errors, newline, closefd, opener)
                if disk.armed and disk.armed.get('call') == 'read':
                    return _SimReader(disk, file, fh)
                return fh
            f = disk._hit('open_w')
            if f:
                disk._raise(f, 'open_w', file)
            plain = mode.replace('b', '').replace('t', '')
            if plain != 'w' or opener is not None or not closefd:
                # unusual mode: pass through, ledger says "unknown"
                disk.files[disk.rel(file)] = ('unknown', -1)
                return o['open'](file, mode, buffering, encoding, errors, newline, closefd, opener)
            try:
                o['lstat'](os.fspath(file))
                existed = True
            except OSError:
                existed = False
            fd = os.open(os.fspath(file), os.O_WRONLY | os.O_CREAT | os.O_TRUNC, 0o666)
            disk.touch(file, parent=not existed)
            rel = disk.rel(file)
            disk.files[rel] = ('open', 0)
            disk.write_seq.append(rel)
            raw = _SimRaw(disk, file, fd)
            raw.name = os.fspath(file)
            raw.mode = 'wb'
            if buffering == 0:
                if 'b' not in mode:
                    raise ValueError("can't have unbuffered text I/O")
                return raw
            buf = io.BufferedWriter(raw, buffer_size=buffering if buffering > 1 else io.DEFAULT_BUFFER_SIZE)
            if 'b' in mode:
                return buf
            return io.TextIOWrapper(buf, encoding=encoding or 'utf-8', errors=errors, newline=newline, line_buffering=(buffering == 1))

        os.listdir, os.scandir, os.stat, os.lstat, os.mkdir = listdir, scandir, stat, lstat, mkdir
        os.remove, os.unlink = remove, unlink
        os.rename, os.replace = _mv('rename'), _mv('replace')
        builtins.open = sim_open
        io.open = sim_open
        self.installed = True

    def mark_op_writes(self):
        self._op_write_base = len(self.write_seq)

    def uninstall(self):
        if not self.installed:
            return
        o = self._orig
        for n in self._OS_NAMES:
            setattr(os, n, o[n])
        builtins.open = o['open']
        io.open = o['io_open']
        self.installed = False

    def destroy(self):
        self.uninstall()
        shutil.rmtree(self.root, ignore_errors=True)

    # -- direct access for the harness (never goes through the wrappers) ---
    def raw_listing(self):
        """All regular files under root: relpath -> bytes (read with the real os)."""
        out = {}
        lst = self._orig.get('listdir', os.listdir)
        st = self._orig.get('stat', os.stat)
        op = self._orig.get('open', builtins.open)
        import stat as _stat

        def walk(d):
            for n in sorted(lst(d)):
                p = os.path.join(d, n)
                if _stat.S_ISDIR(st(p).st_mode):
                    walk(p)
                else:
                    with op(p, 'rb') as fh:
                        out[os.path.relpath(p, self.root)] = fh.read()
        walk(self.root)
        return out

    def raw_write(self, rel, data):
        op = self._orig.get('open', builtins.open)
        p = os.path.join(self.root, rel)
        os.makedirs(os.path.dirname(p), exist_ok=True)
        try:
            self._orig.get('lstat', os.lstat)(p)
            existed = True
        except OSError:
            existed = False
        with op(p, 'wb') as fh:
            fh.write(data)
        self.touch(p, parent=not existed)

    def raw_remove(self, rel):
        self._orig.get('remove', os.remove)(os.path.join(self.root, rel))
        self.files.pop(rel, None)
        self.touch(os.path.join(self.root, rel), itself=False)
