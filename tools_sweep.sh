#!/bin/bash
# false-alarm sweep on the unchanged tree: other seeds at quick size, one larger batch
mkdir -p sweep_out
for S in 1 2 3; do
  for P in C05 C06 C07 C11 C12 C13 C14 C17 C18 C19; do
    VERIF_SEED=$S VERIF_EVIDENCE_DIR=$PWD/sweep_out/ev VERIF_REPLAY_DIR=$PWD/sweep_out/rp timeout 1500 ./check $P quick > sweep_out/$P-s$S.log 2>&1
    echo "seed=$S $P rc=$? $(grep -c VIOLATION sweep_out/$P-s$S.log)"
  done
done
for P in C05 C06 C07 C11 C12 C13 C14 C18 C19 C17; do
  Q=$(grep -o "runs=[0-9]*" sweep_out/$P-s1.log | head -1 | cut -d= -f2)
  VERIF_SEED=7 VERIF_RUNS=$((Q*6)) VERIF_WALL_CAP=3000 VERIF_EVIDENCE_DIR=$PWD/sweep_out/ev VERIF_REPLAY_DIR=$PWD/sweep_out/rp timeout 3200 ./check $P quick > sweep_out/$P-s7x6.log 2>&1
  echo "seed=7x6 $P rc=$? $(grep -c VIOLATION sweep_out/$P-s7x6.log)"
done
